#!/bin/sh
# Offline setup: nothing is downloaded. Pre-builds the native replay binary's dependencies and
# checks that the tools the checks rely on are present. Checks rebuild everything that depends on
# /repo's sources themselves, on every run.
set -e
cd "$(dirname "$0")"
export CARGO_NET_OFFLINE=true
command -v cargo >/dev/null
cargo kani --version
mkdir -p .build evidence replays
cp -f /repo/Cargo.lock replay/Cargo.lock 2>/dev/null || true
exit 0
