//! Native replay of a solver counterexample: runs the *same harness body* that Kani checked,
//! compiled natively against /repo (no Kani stubs: real FNV, real formatting, real std), with
//! every nondeterministic draw taken from the recorded tape.
//!
//! exit 1: the harness assertion fails natively (counterexample reproduced)
//! exit 0: the harness passes natively (counterexample NOT reproduced)
//! exit 3: the run left the recorded path (tape mismatch / assumption violated)
use std::panic;

fn parse_tape(s: &str) -> Vec<Vec<u8>> {
    // minimal parser for [[1,2],[3]]
    let mut out = Vec::new();
    let mut cur: Option<Vec<u8>> = None;
    let mut num: Option<u32> = None;
    let mut depth = 0;
    for c in s.chars() {
        match c {
            '[' => {
                depth += 1;
                if depth == 2 {
                    cur = Some(Vec::new());
                }
            }
            ']' => {
                if let (Some(n), Some(v)) = (num.take(), cur.as_mut()) {
                    v.push(n as u8);
                }
                if depth == 2 {
                    out.push(cur.take().unwrap());
                }
                depth -= 1;
            }
            ',' => {
                if let (Some(n), Some(v)) = (num.take(), cur.as_mut()) {
                    v.push(n as u8);
                }
            }
            d if d.is_ascii_digit() => {
                num = Some(num.unwrap_or(0) * 10 + d.to_digit(10).unwrap());
            }
            _ => {}
        }
    }
    out
}

fn panic_msg(e: Box<dyn std::any::Any + Send>) -> String {
    if let Some(s) = e.downcast_ref::<String>() {
        s.clone()
    } else if let Some(s) = e.downcast_ref::<&str>() {
        s.to_string()
    } else {
        String::from("<non-string panic>")
    }
}

fn main() {
    let args: Vec<String> = std::env::args().collect();
    if args.len() < 3 {
        eprintln!("usage: vreplay <harness> <tape.json> | vreplay --search <harness> <trials> <seed> <out-tape.json> [<failed-check-substring>]");
        std::process::exit(2);
    }
    if args[1] == "--search" {
        // Directed native search for a concrete witness of a violation the solver has already
        // established: random tapes biased towards special values; the first run whose harness
        // assertion fails (optionally: with the given message) is written out as a tape.
        let f = prometheus::verif_incrate::dispatch(&args[2]).expect("unknown harness");
        let trials: u64 = args[3].parse().unwrap();
        let seed: u64 = args[4].parse().unwrap();
        let want = args.get(6).cloned().unwrap_or_default();
        panic::set_hook(Box::new(|_| {}));
        let mut diverged = 0u64;
        for t in 0..trials {
            // a trial = up to 4 passes with the same random stream; shims may leave hints between
            // passes (the K-round atomics record the end-of-round values their guesses must match)
            prometheus::verif_rt::hints_clear();
            for _pass in 0..4 {
            prometheus::verif_rt::start_search(seed.wrapping_mul(0x9E3779B97F4A7C15).wrapping_add(t.wrapping_mul(0xD1B54A32D192ED03)));
            let r = panic::catch_unwind(f);
            if let Err(e) = r {
                let msg = panic_msg(e);
                if msg.contains("REPLAY-DIVERGED") {
                    diverged += 1;
                    continue;
                }
                if !want.is_empty() && !msg.contains(&want) {
                    break;
                }
                let tape = prometheus::verif_rt::get_tape();
                let js: Vec<String> = tape.iter().map(|v| format!("[{}]", v.iter().map(|b| b.to_string()).collect::<Vec<_>>().join(","))).collect();
                std::fs::write(&args[5], format!("[{}]", js.join(","))).unwrap();
                println!("SEARCH-RESULT: witness found at trial {} ({} runs left the assumed region): {}", t, diverged, msg);
                std::process::exit(1);
            }
            break;
            }
        }
        println!("SEARCH-RESULT: no witness in {} trials ({} left the assumed region)", trials, diverged);
        std::process::exit(0);
    }
    let tape = parse_tape(&std::fs::read_to_string(&args[2]).expect("tape file"));
    let f = match prometheus::verif_incrate::dispatch(&args[1]) {
        Some(f) => f,
        None => {
            eprintln!("unknown harness {}", args[1]);
            std::process::exit(2);
        }
    };
    prometheus::verif_rt::set_tape(tape);
    let r = panic::catch_unwind(f);
    let (pos, len) = prometheus::verif_rt::tape_pos();
    match r {
        Ok(()) => {
            println!("REPLAY-RESULT: harness passed natively ({} of {} draws used)", pos, len);
            std::process::exit(0);
        }
        Err(e) => {
            let msg = panic_msg(e);
            if msg.contains("REPLAY-DIVERGED") {
                println!("REPLAY-RESULT: diverged: {}", msg);
                std::process::exit(3);
            }
            println!("REPLAY-RESULT: FAILED natively: {} ({} of {} draws used)", msg, pos, len);
            std::process::exit(1);
        }
    }
}
