#[cfg(kani)]
mod proofs {
    use prometheus::verif_sync::*;
    use prometheus::core::Metric;
    use prometheus::*;

    pub fn fixed_random_state() -> std::hash::RandomState {
        unsafe { std::mem::transmute::<(u64, u64), std::hash::RandomState>((0, 0)) }
    }
    pub fn fmt_stub(_a: std::fmt::Arguments<'_>) -> String { String::new() }
    pub fn cheap_desc(fq_name: String, help: String, variable_labels: Vec<String>, const_labels: std::collections::HashMap<String,String>) -> Result<core::Desc> {
        std::mem::forget(const_labels);
        Ok(core::Desc { fq_name, help, const_label_pairs: Vec::new(), variable_labels, id: 0, dim_hash: 0 })
    }

    #[kani::proof]
    #[kani::unwind(5)]
    #[kani::stub(std::hash::RandomState::new, fixed_random_state)]
    #[kani::stub(std::fmt::format, fmt_stub)]
    #[kani::stub(prometheus::core::Desc::new, cheap_desc)]
    fn hist_obs_vs_collect() {
        let h = Histogram::with_opts(HistogramOpts::new("a", "h").buckets(vec![1.0])).unwrap();
        begin_register();
        let w = h.metric();
        std::mem::forget(w);
        assert!(ncells() == 8);
        let a: u8 = kani::any();
        kani::assume(a < 4);
        let va = a as f64;
        begin_threads();
        // thread 1: observer
        start_thread();
        h.observe(va);
        let t1_end = round();
        // thread 2: collector
        start_thread();
        sched_point();
        let t2_begin = round();
        let m = h.metric();
        assume_consistent();
        let hp = m.get_histogram();
        let cnt = hp.get_sample_count();
        let sum = hp.get_sample_sum();
        let bs = hp.get_bucket();
        assert!(bs.len() == 1);
        let c0 = bs[0].cumulative_count();
        let empty = cnt == 0 && sum == 0.0 && c0 == 0;
        let full = cnt == 1 && sum == va && c0 == (va <= 1.0) as u64;
        assert!(empty || full);
        if t1_end <= t2_begin { assert!(full); }
        kani::cover!(empty, "collector missed in-flight observation");
        kani::cover!(full && t1_end > t2_begin, "collector waited for in-flight observation");
        assert!(h.get_sample_count() == 1);
        std::mem::forget(m);
        std::mem::forget(h);
    }

    pub fn slow_lock(_l: &parking_lot::RawRwLock, _t: Option<std::time::Instant>) -> bool { kani::assume(false); true }
    pub fn slow_lock_shared(_l: &parking_lot::RawRwLock, _r: bool, _t: Option<std::time::Instant>) -> bool { kani::assume(false); true }
    pub fn slow_unlock(_l: &parking_lot::RawRwLock, _f: bool) { kani::assume(false); }
    pub fn slow_unlock_shared(_l: &parking_lot::RawRwLock) { kani::assume(false); }

    #[kani::proof]
    #[kani::unwind(6)]
    #[kani::stub(std::hash::RandomState::new, fixed_random_state)]
    #[kani::stub(std::fmt::format, fmt_stub)]
    #[kani::stub(parking_lot::RawRwLock::lock_exclusive_slow, slow_lock)]
    #[kani::stub(parking_lot::RawRwLock::lock_shared_slow, slow_lock_shared)]
    #[kani::stub(parking_lot::RawRwLock::unlock_exclusive_slow, slow_unlock)]
    #[kani::stub(parking_lot::RawRwLock::unlock_shared_slow, slow_unlock_shared)]
    fn vec_pool() {
        let v = prometheus::IntCounterVec::new(Opts::new("a", "h"), &["x", "y"]).unwrap();
        let pool = ["ab", "a", "bc", "c"];
        let i: usize = kani::any(); let j: usize = kani::any(); let k: usize = kani::any(); let l: usize = kani::any();
        kani::assume(i < 4 && j < 4 && k < 4 && l < 4);
        let ca = v.get_metric_with_label_values(&[pool[i], pool[j]]).unwrap();
        ca.inc();
        let cb = v.get_metric_with_label_values(&[pool[k], pool[l]]).unwrap();
        let same = i == k && j == l;
        assert!((cb.get() == 1) == same);
        std::mem::forget(ca); std::mem::forget(cb); std::mem::forget(v);
    }
}
