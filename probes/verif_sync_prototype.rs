//! Lal-Reps K-round versioned atomics (verification shim).
#![allow(missing_docs, dead_code, static_mut_refs)]
use std::cell::UnsafeCell;
pub use std::sync::atomic::Ordering;

pub const K: usize = 3;
pub const NCELL: usize = 12;
pub static mut ROUND: usize = 0;
/// 0 = plain (version 0 only), 1 = plain + register, 2 = versioned
pub static mut MODE: u8 = 0;
pub static mut CELLS: [*const Cell; NCELL] = [std::ptr::null(); NCELL];
pub static mut NCELLS: usize = 0;
pub static mut LAST_FAIL: *const Cell = std::ptr::null();
pub static mut LAST_FAIL_ROUND: usize = 0;
pub static mut LAST_FAIL_EXPECTED: u64 = 0;

#[derive(Debug)]
pub struct Cell { v: UnsafeCell<[u64; K]>, g: UnsafeCell<[u64; K]>, mask: u64, fail: UnsafeCell<(usize, usize, u64)> }
unsafe impl Sync for Cell {}
unsafe impl Send for Cell {}

#[cfg(kani)]
fn nondet_u64() -> u64 { kani::any() }
#[cfg(not(kani))]
fn nondet_u64() -> u64 { 0 }
#[cfg(kani)]
fn assume(b: bool) { kani::assume(b) }
#[cfg(not(kani))]
fn assume(b: bool) { assert!(b) }
#[cfg(kani)]
fn nondet_round(lo: usize) -> usize { let r: usize = kani::any(); kani::assume(r >= lo && r < K); r }
#[cfg(not(kani))]
fn nondet_round(lo: usize) -> usize { lo }

pub fn sched_point() { unsafe { if MODE == 2 { ROUND = nondet_round(ROUND); } } }

impl Cell {
    pub const fn new(x: u64, mask: u64) -> Cell { Cell { v: UnsafeCell::new([x; K]), g: UnsafeCell::new([0; K]), mask, fail: UnsafeCell::new((0, 0, 0)) } }
    #[inline]
    unsafe fn slot(&self) -> &mut u64 {
        if MODE == 1 { self.register(); }
        let arr: &mut [u64; K] = &mut *self.v.get();
        if MODE == 2 {
            // explicit case split keeps every access field-sensitive (no symbolic pointer offsets)
            if ROUND == 0 { &mut arr[0] } else if ROUND == 1 { &mut arr[1] } else { &mut arr[2] }
        } else { &mut arr[0] }
    }
    unsafe fn register(&self) {
        let p = self as *const Cell;
        macro_rules! t { ($($i:expr),*) => { $( if $i < NCELLS && CELLS[$i] == p { return; } )* } }
        t!(0,1,2,3,4,5,6,7,8,9,10,11);
        assert!(NCELLS < NCELL);
        CELLS[NCELLS] = p;
        NCELLS += 1;
    }
    unsafe fn guess(&self) {
        let v = &mut *self.v.get(); let g = &mut *self.g.get();
        let mut r = 1;
        while r < K { let x = nondet_u64() & self.mask; v[r] = x; g[r] = x; r += 1; }
    }
    unsafe fn consistent(&self) {
        let v = &*self.v.get(); let g = &*self.g.get();
        let mut r = 0;
        while r + 1 < K { assume(v[r] == g[r + 1]); r += 1; }
    }
}
pub fn begin_register() { unsafe { MODE = 1; } }
pub fn begin_threads() { unsafe {
    macro_rules! t { ($($i:expr),*) => { $( if $i < NCELLS { (*CELLS[$i]).guess(); } )* } }
    t!(0,1,2,3,4,5,6,7,8,9,10,11);
    MODE = 2; ROUND = 0;
} }
pub static mut THREAD: usize = 0;
pub fn start_thread() { unsafe { ROUND = 0; THREAD += 1; } }
pub fn round() -> usize { unsafe { ROUND } }
pub fn ncells() -> usize { unsafe { NCELLS } }
pub fn assume_consistent() { unsafe {
    macro_rules! t { ($($i:expr),*) => { $( if $i < NCELLS { (*CELLS[$i]).consistent(); } )* } }
    t!(0,1,2,3,4,5,6,7,8,9,10,11);
    ROUND = K - 1;
} }

#[derive(Debug)]
pub struct AtomicU64 { c: Cell }
impl AtomicU64 {
    pub const fn new(x: u64) -> Self { AtomicU64 { c: Cell::new(x, u64::MAX) } }
    pub fn load(&self, _o: Ordering) -> u64 { sched_point(); unsafe { *self.c.slot() } }
    pub fn store(&self, x: u64, _o: Ordering) { sched_point(); unsafe { *self.c.slot() = x } }
    pub fn swap(&self, x: u64, _o: Ordering) -> u64 { sched_point(); unsafe { let p = self.c.slot(); let old = *p; *p = x; old } }
    pub fn fetch_add(&self, x: u64, _o: Ordering) -> u64 { sched_point(); unsafe { let p = self.c.slot(); let old = *p; *p = old.wrapping_add(x); old } }
    pub fn fetch_sub(&self, x: u64, _o: Ordering) -> u64 { sched_point(); unsafe { let p = self.c.slot(); let old = *p; *p = old.wrapping_sub(x); old } }
    pub fn compare_exchange_weak(&self, cur: u64, new: u64, _s: Ordering, _f: Ordering) -> Result<u64, u64> {
        sched_point();
        unsafe {
            let p = self.c.slot();
            let old = *p;
            if old == cur { *p = new; Ok(old) } else {
                if MODE == 2 {
                    // stutter pruning: an identical failed CAS by the same thread in the same round observes the same value again
                    let f = &mut *self.c.fail.get();
                    assume(!(f.0 == THREAD && f.1 == ROUND + 1 && f.2 == cur));
                    *f = (THREAD, ROUND + 1, cur);
                }
                Err(old)
            }
        }
    }
}
#[derive(Debug)]
pub struct AtomicI64 { c: Cell }
impl AtomicI64 {
    pub const fn new(x: i64) -> Self { AtomicI64 { c: Cell::new(x as u64, u64::MAX) } }
    pub fn load(&self, _o: Ordering) -> i64 { sched_point(); unsafe { *self.c.slot() as i64 } }
    pub fn store(&self, x: i64, _o: Ordering) { sched_point(); unsafe { *self.c.slot() = x as u64 } }
    pub fn fetch_add(&self, x: i64, _o: Ordering) -> i64 { sched_point(); unsafe { let p = self.c.slot(); let old = *p; *p = old.wrapping_add(x as u64); old as i64 } }
    pub fn fetch_sub(&self, x: i64, _o: Ordering) -> i64 { sched_point(); unsafe { let p = self.c.slot(); let old = *p; *p = old.wrapping_sub(x as u64); old as i64 } }
}

#[derive(Debug)]
pub struct Mutex<T> { held: Cell, data: UnsafeCell<T> }
unsafe impl<T: Send> Sync for Mutex<T> {}
unsafe impl<T: Send> Send for Mutex<T> {}
#[derive(Debug)]
pub struct MutexGuard<'a, T> { m: &'a Mutex<T> }
impl<T> Mutex<T> {
    pub const fn new(t: T) -> Self { Mutex { held: Cell::new(0, 1), data: UnsafeCell::new(t) } }
    /// Blocking acquire: executions in which the lock is held at this point are pruned
    /// (the acquiring thread is simply scheduled later in an equivalent execution).
    pub fn lock(&self) -> Result<MutexGuard<'_, T>, ()> {
        sched_point();
        unsafe { let p = self.held.slot(); assume(*p == 0); *p = 1; }
        Ok(MutexGuard { m: self })
    }
}
impl<T> Drop for MutexGuard<'_, T> {
    fn drop(&mut self) { sched_point(); unsafe { *self.m.held.slot() = 0; } }
}
impl<T> std::ops::Deref for MutexGuard<'_, T> { type Target = T; fn deref(&self) -> &T { unsafe { &*self.m.data.get() } } }
