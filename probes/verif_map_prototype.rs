//! Abstract finite map standing in for std::collections::HashMap (verification shim, probe version).
#![allow(missing_docs, dead_code, missing_debug_implementations)]
use std::borrow::Borrow;
use std::marker::PhantomData;

#[derive(Clone)]
pub struct HashMap<K, V, S = ()> { items: Vec<(K, V)>, _s: PhantomData<S> }
impl<K: std::fmt::Debug, V: std::fmt::Debug, S> std::fmt::Debug for HashMap<K, V, S> {
    fn fmt(&self, f: &mut std::fmt::Formatter<'_>) -> std::fmt::Result { f.debug_map().entries(self.items.iter().map(|kv| (&kv.0, &kv.1))).finish() }
}
impl<K, V, S> Default for HashMap<K, V, S> { fn default() -> Self { HashMap { items: Vec::new(), _s: PhantomData } } }
impl<K: PartialEq, V, S> HashMap<K, V, S> {
    pub fn new() -> Self { Self::default() }
    pub fn with_capacity(_n: usize) -> Self { Self::default() }
    pub fn len(&self) -> usize { self.items.len() }
    pub fn is_empty(&self) -> bool { self.items.is_empty() }
    pub fn get<Q: ?Sized + PartialEq>(&self, k: &Q) -> Option<&V> where K: Borrow<Q> {
        let mut i = 0;
        while i < self.items.len() { if self.items[i].0.borrow() == k { return Some(&self.items[i].1); } i += 1; }
        None
    }
    pub fn insert(&mut self, k: K, v: V) -> Option<V> {
        let mut i = 0;
        while i < self.items.len() {
            if self.items[i].0 == k { return Some(std::mem::replace(&mut self.items[i].1, v)); }
            i += 1;
        }
        self.items.push((k, v));
        None
    }
    pub fn remove<Q: ?Sized + PartialEq>(&mut self, k: &Q) -> Option<V> where K: Borrow<Q> {
        let mut i = 0;
        while i < self.items.len() {
            if self.items[i].0.borrow() == k { return Some(self.items.remove(i).1); }
            i += 1;
        }
        None
    }
    pub fn clear(&mut self) { self.items.clear(); }
    pub fn values(&self) -> impl Iterator<Item = &V> { self.items.iter().map(|kv| &kv.1) }
    pub fn keys(&self) -> impl ExactSizeIterator<Item = &K> { self.items.iter().map(|kv| &kv.0) }
}

impl<K: PartialEq, V, S> HashMap<K, V, S> {
    pub fn iter(&self) -> impl Iterator<Item = (&K, &V)> { self.items.iter().map(|kv| (&kv.0, &kv.1)) }
    pub fn entry(&mut self, k: K) -> Entry<'_, K, V, S> {
        let mut i = 0;
        while i < self.items.len() {
            if self.items[i].0 == k { return Entry::Occupied(OccupiedEntry { m: self, i }); }
            i += 1;
        }
        Entry::Vacant(VacantEntry { m: self, k })
    }
}
pub enum Entry<'a, K, V, S> { Occupied(OccupiedEntry<'a, K, V, S>), Vacant(VacantEntry<'a, K, V, S>) }
pub struct OccupiedEntry<'a, K, V, S> { m: &'a mut HashMap<K, V, S>, i: usize }
pub struct VacantEntry<'a, K, V, S> { m: &'a mut HashMap<K, V, S>, k: K }
impl<'a, K, V, S> OccupiedEntry<'a, K, V, S> { pub fn get_mut(&mut self) -> &mut V { &mut self.m.items[self.i].1 } }
impl<'a, K, V, S> VacantEntry<'a, K, V, S> {
    pub fn insert(self, v: V) -> &'a mut V { self.m.items.push((self.k, v)); let n = self.m.items.len() - 1; &mut self.m.items[n].1 }
}
#[derive(Debug, Clone)]
pub struct HashSet<T> { items: Vec<T> }
impl<T> Default for HashSet<T> { fn default() -> Self { HashSet { items: Vec::new() } } }
impl<T: PartialEq> HashSet<T> {
    pub fn new() -> Self { Self::default() }
    pub fn contains(&self, t: &T) -> bool { let mut i = 0; while i < self.items.len() { if &self.items[i] == t { return true; } i += 1; } false }
    pub fn insert(&mut self, t: T) -> bool { if self.contains(&t) { false } else { self.items.push(t); true } }
    pub fn remove(&mut self, t: &T) -> bool { let mut i = 0; while i < self.items.len() { if &self.items[i] == t { self.items.remove(i); return true; } i += 1; } false }
    pub fn extend(&mut self, o: HashSet<T>) { for t in o.items { self.insert(t); } }
}
