#[cfg(kani)]
mod proofs {
    use prometheus::proto::*;
    use prometheus::{Encoder, ProtobufEncoder};

    #[kani::proof]
    #[kani::unwind(12)]
    fn pb_counter_value() {
        let x: f64 = kani::any();
        let mut lp = LabelPair::default();
        lp.set_name("l".to_string());
        lp.set_value("v".to_string());
        let mut m = Metric::from_label(vec![lp]);
        let mut c = Counter::default();
        c.set_value(x);
        m.set_counter(c);
        let mut mf = MetricFamily::default();
        mf.set_name("a".to_string());
        mf.set_help("h".to_string());
        mf.set_field_type(MetricType::COUNTER);
        mf.set_metric(vec![m]);
        let mut out: Vec<u8> = Vec::new();
        let r = ProtobufEncoder::new().encode(&[mf], &mut out);
        assert!(r.is_ok());
        // length-delimited: first byte is the varint length (< 128 here)
        assert!(out.len() >= 2 && out[0] as usize == out.len() - 1);
        // name field: tag 0x0a len 1 'a'
        assert!(out[1] == 0x0a && out[2] == 1 && out[3] == b'a');
        std::mem::forget(out);
    }
}
