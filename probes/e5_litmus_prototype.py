# E5 prototype: release/acquire hand-off of the histogram count, RC11-style axioms in z3.
import sys, itertools, time
from z3 import *

RLX, ACQ, REL, ACQREL = 0, 1, 2, 3
def is_acq(o): return o in (ACQ, ACQREL)
def is_rel(o): return o in (REL, ACQREL)

def check(o4_ord, c2_ord, verbose=False):
    # events: (name, thread, loc, kind, ordering); kind: 'W' init write, 'U' = RMW
    ev = [
        ('i_sac', 0, 'sac', 'W', RLX), ('i_bkt', 0, 'bkt', 'W', RLX), ('i_cnt', 0, 'cnt', 'W', RLX),
        ('o1', 1, 'sac', 'U', ACQ),        # shard_and_count.inc(Acquire)
        ('o2', 1, 'bkt', 'U', RLX),        # shard.buckets[i].inc_by(1)
        ('o4', 1, 'cnt', 'U', o4_ord),     # shard.count.inc_by_with_ordering(1, Release)
        ('c1', 2, 'sac', 'U', ACQREL),     # flip
        ('c2', 2, 'cnt', 'U', c2_ord),     # successful compare_exchange on cold.count
        ('c3', 2, 'bkt', 'U', ACQREL),     # cold.buckets[i].swap(0)
    ]
    n = len(ev); idx = {e[0]: k for k, e in enumerate(ev)}
    s = Solver()
    mo = [Int('mo_%s' % e[0]) for e in ev]
    rf = [Int('rf_%s' % e[0]) for e in ev]           # index of the write read from (for U events)
    locs = {}
    for k, e in enumerate(ev): locs.setdefault(e[2], []).append(k)
    for l, ks in locs.items():
        for k in ks: s.add(mo[k] >= 0, mo[k] < len(ks))
        s.add(Distinct([mo[k] for k in ks]))
        init = [k for k in ks if ev[k][3] == 'W'][0]
        s.add(mo[init] == 0)
    for k, e in enumerate(ev):
        if e[3] == 'U':
            ks = [j for j in locs[e[2]] if j != k]
            s.add(Or([rf[k] == j for j in ks]))
            for j in ks:   # RMW atomicity: reads its immediate mo-predecessor
                s.add(Implies(rf[k] == j, mo[k] == mo[j] + 1))
    # program order (init before everything)
    po = [[False] * n for _ in range(n)]
    for a in range(n):
        for b in range(n):
            if a == b: continue
            if ev[a][1] == 0 and ev[b][1] != 0: po[a][b] = True
            if ev[a][1] == ev[b][1] and ev[a][1] != 0 and a < b: po[a][b] = True
    # release sequence membership rs[w][x]: x == w, or x is an RMW reading from a member
    rs = [[Bool('rs_%d_%d' % (w, x)) for x in range(n)] for w in range(n)]
    for w in range(n):
        for x in range(n):
            if ev[w][2] != ev[x][2]: s.add(rs[w][x] == False); continue
            if x == w: s.add(rs[w][x] == True); continue
            if ev[x][3] != 'U': s.add(rs[w][x] == False); continue
            # well-founded through mo: x reads from y with y in rs(w)
            s.add(rs[w][x] == Or([And(rf[x] == y, rs[w][y]) for y in locs[ev[x][2]] if y != x]))
    # synchronises-with: release write w, acquire RMW r reading from something in rs(w)
    def sw(w, r):
        if ev[r][3] != 'U' or ev[w][2] != ev[r][2] or w == r: return BoolVal(False)
        if not (is_rel(ev[w][4]) and is_acq(ev[r][4])): return BoolVal(False)
        return Or([And(rf[r] == x, rs[w][x]) for x in locs[ev[r][2]] if x != r])
    base = [[Or(BoolVal(po[a][b]), sw(a, b)) if a != b else BoolVal(False) for b in range(n)] for a in range(n)]
    hb = base
    for it in range(4):  # transitive closure by repeated squaring (n = 9 < 2^4)
        nh = [[Bool('hb%d_%d_%d' % (it, a, b)) for b in range(n)] for a in range(n)]
        for a in range(n):
            for b in range(n):
                s.add(nh[a][b] == Or(hb[a][b], Or([And(hb[a][c], hb[c][b]) for c in range(n)])))
        hb = nh
    for a in range(n): s.add(Not(hb[a][a]))
    # coherence
    for a in range(n):
        for b in range(n):
            if a == b or ev[a][2] != ev[b][2]: continue
            s.add(Implies(hb[a][b], mo[a] < mo[b]))                       # CoWW (all events here write)
            if ev[b][3] == 'U':
                for w in locs[ev[b][2]]:
                    if w in (a, b): continue
                    s.add(Implies(And(hb[a][b], rf[b] == w), mo[a] <= mo[w]))   # CoWR: cannot read something mo-older than a hb-earlier write
    for k, e in enumerate(ev):
        if e[3] == 'U':
            for j in locs[e[2]]:
                if j != k: s.add(Implies(rf[k] == j, Not(hb[k][j])))       # no reading from the hb-future
    # scenario: the observer claimed its slot before the flip, the collector's CAS saw the count published
    s.add(rf[idx['c1']] == idx['o1'])
    s.add(rf[idx['c2']] == idx['o4'])
    # violation: the drained bucket does not contain the observer's increment
    s.add(rf[idx['c3']] == idx['i_bkt'])
    t = time.time(); r = s.check(); dt = time.time() - t
    if verbose and r == sat:
        m = s.model()
        print('   witness: ' + ', '.join('%s<-%s' % (ev[k][0], ev[m[rf[k]].as_long()][0]) for k in range(n) if ev[k][3] == 'U'))
    return r, dt

names = {RLX: 'Relaxed', ACQ: 'Acquire', REL: 'Release', ACQREL: 'AcqRel'}
for o4, c2 in [(REL, ACQ), (RLX, ACQ), (REL, RLX), (ACQREL, ACQREL), (RLX, RLX)]:
    r, dt = check(o4, c2, verbose=True)
    print('count.inc=%-8s cas=%-8s stale-bucket execution: %-5s (%.2fs)' % (names[o4], names[c2], r, dt))
