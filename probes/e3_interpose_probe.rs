#![allow(static_mut_refs)]
#[cfg(kani)]
mod proofs {
    use prometheus::core::{Collector, Desc};
    use prometheus::*;

    pub fn fixed_random_state() -> std::hash::RandomState {
        unsafe { std::mem::transmute::<(u64, u64), std::hash::RandomState>((0, 0)) }
    }
    pub fn fmt_stub(_a: std::fmt::Arguments<'_>) -> String { String::new() }
    pub fn cheap_desc(fq_name: String, help: String, variable_labels: Vec<String>, const_labels: std::collections::HashMap<String,String>) -> Result<Desc> {
        std::mem::forget(const_labels);
        Ok(Desc { fq_name, help, const_label_pairs: Vec::new(), variable_labels, id: 0, dim_hash: 0 })
    }
    pub fn slow_lock(_l: &parking_lot::RawRwLock, _t: Option<std::time::Instant>) -> bool { kani::assume(false); true }
    pub fn slow_lock_shared(_l: &parking_lot::RawRwLock, _r: bool, _t: Option<std::time::Instant>) -> bool { kani::assume(false); true }
    pub fn slow_unlock(_l: &parking_lot::RawRwLock, _f: bool) { kani::assume(false); }
    pub fn slow_unlock_shared(_l: &parking_lot::RawRwLock) { kani::assume(false); }

    static mut DEPTH: u32 = 0;
    static mut INTERPOSED: u32 = 0;
    static mut REMOVED: u32 = 0;
    static mut VEC: Option<IntCounterVec> = None;
    /// other threads' complete operations, chosen symbolically, run at a lock-acquisition point
    fn interpose() {
        unsafe {
            if DEPTH > 0 || INTERPOSED + REMOVED >= 1 { return; }
            let which: u8 = kani::any();
            if which == 1 {
                DEPTH += 1; INTERPOSED += 1;
                VEC.as_ref().unwrap().get_metric_with_label_values(&["p"]).unwrap().inc();
                DEPTH -= 1;
            }
        }
    }
    pub fn write_stub<R: lock_api::RawRwLock, T: ?Sized>(this: &lock_api::RwLock<R, T>) -> lock_api::RwLockWriteGuard<'_, R, T> {
        interpose();
        unsafe { this.raw().lock_exclusive(); this.make_write_guard_unchecked() }
    }
    #[kani::proof]
    #[kani::unwind(5)]
    #[kani::stub(std::hash::RandomState::new, fixed_random_state)]
    #[kani::stub(std::fmt::format, fmt_stub)]
    #[kani::stub(prometheus::core::Desc::new, cheap_desc)]
    #[kani::stub(parking_lot::RawRwLock::lock_exclusive_slow, slow_lock)]
    #[kani::stub(parking_lot::RawRwLock::lock_shared_slow, slow_lock_shared)]
    #[kani::stub(parking_lot::RawRwLock::unlock_exclusive_slow, slow_unlock)]
    #[kani::stub(parking_lot::RawRwLock::unlock_shared_slow, slow_unlock_shared)]
    #[kani::stub(lock_api::RwLock::write, write_stub)]
    fn vec_interpose() {
        let v = IntCounterVec::new(Opts::new("a", "h"), &["x"]).unwrap();
        unsafe { VEC = Some(v.clone()); }
        // thread A: first request for "p" (read miss, then write lock: another creator may run in between)
        let c = v.get_metric_with_label_values(&["p"]).unwrap();
        c.inc();
        let n = unsafe { INTERPOSED } as u64;
        // both creators must have got the same child: no update lost, one sample only
        assert!(v.get_metric_with_label_values(&["p"]).unwrap().get() == 1 + n);
        let fam = v.collect();
        assert!(fam[0].get_metric().len() == 1);
        kani::cover!(n == 1, "another creator ran between the read miss and the write lock");
        std::mem::forget(fam); std::mem::forget(c); std::mem::forget(v);
    }
}
