struct Unit {};
struct Unit vt_init(void);
struct Unit vt_thread1(void);
struct Unit vt_thread2(void);
struct Unit vt_check(void);
void vt_main(void) {
  vt_init();
  __CPROVER_ASYNC_1: vt_thread1();
  __CPROVER_ASYNC_2: vt_thread2();
  vt_check();
}
