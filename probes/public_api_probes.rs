#![allow(static_mut_refs)]
#[cfg(kani)]
mod proofs {
    use prometheus::core::{Collector, Desc};
    use prometheus::proto::*;
    use prometheus::{Encoder, TextEncoder, Registry, IntCounter, Opts};
    use std::collections::HashMap;

    pub fn fixed_random_state() -> std::hash::RandomState {
        unsafe { std::mem::transmute::<(u64, u64), std::hash::RandomState>((0, 0)) }
    }
    pub fn fmt_stub(_a: std::fmt::Arguments<'_>) -> String { String::new() }

    fn pick_char() -> char {
        let k: u8 = kani::any();
        kani::assume(k < 6);
        match k { 0 => '\\', 1 => '"', 2 => '\n', 3 => 'a', 4 => '\r', _ => 'é' }
    }
    fn sym_text(max: usize) -> String {
        let n: usize = kani::any();
        kani::assume(n <= max);
        let mut s = String::new();
        let mut i = 0;
        while i < max { if i < n { s.push(pick_char()); } i += 1; }
        s
    }

    // C04 probe: escaping cannot add or remove lines
    #[kani::proof]
    #[kani::unwind(12)]
    fn text_escape_lines() {
        let help = sym_text(2);
        let lv = sym_text(2);
        let mut lp = LabelPair::default();
        lp.set_name("l".to_string());
        lp.set_value(lv.clone());
        let mut m = Metric::from_label(vec![lp]);
        let mut c = Counter::default();
        c.set_value(1.0);
        m.set_counter(c);
        let mut mf = MetricFamily::default();
        mf.set_name("a".to_string());
        mf.set_help(help.clone());
        mf.set_field_type(MetricType::COUNTER);
        mf.set_metric(vec![m]);
        let mut out = String::new();
        let r = TextEncoder::new().encode_utf8(&[mf], &mut out);
        assert!(r.is_ok());
        let nl = out.bytes().filter(|b| *b == b'\n').count();
        let expect = if help.is_empty() { 2 } else { 3 };
        assert!(nl == expect);
        std::mem::forget(out);
    }

    struct Multi { descs: Vec<Desc> }
    impl Collector for Multi {
        fn desc(&self) -> Vec<&Desc> { self.descs.iter().collect() }
        fn collect(&self) -> Vec<MetricFamily> { Vec::new() }
    }
    fn mk_desc(name: &str, help: &str) -> Desc {
        Desc::new(name.to_string(), help.to_string(), vec![], HashMap::new()).unwrap()
    }
    pub fn slow_lock(_l: &parking_lot::RawRwLock, _t: Option<std::time::Instant>) -> bool { kani::assume(false); true }
    pub fn slow_lock_shared(_l: &parking_lot::RawRwLock, _r: bool, _t: Option<std::time::Instant>) -> bool { kani::assume(false); true }
    pub fn slow_unlock(_l: &parking_lot::RawRwLock, _f: bool) { kani::assume(false); }
    pub fn slow_unlock_shared(_l: &parking_lot::RawRwLock) { kani::assume(false); }

    // C06 probe: failed multi-desc registration leaves no trace
    #[kani::proof]
    #[kani::unwind(6)]
    #[kani::stub(std::hash::RandomState::new, fixed_random_state)]
    #[kani::stub(std::fmt::format, fmt_stub)]
    #[kani::stub(parking_lot::RawRwLock::lock_exclusive_slow, slow_lock)]
    #[kani::stub(parking_lot::RawRwLock::lock_shared_slow, slow_lock_shared)]
    #[kani::stub(parking_lot::RawRwLock::unlock_exclusive_slow, slow_unlock)]
    #[kani::stub(parking_lot::RawRwLock::unlock_shared_slow, slow_unlock_shared)]
    fn registry_failed_leaves_no_trace() {
        let r = Registry::new();
        // "b" registered first with help h1
        r.register(Box::new(Multi { descs: vec![mk_desc("b", "h1")] })).unwrap();
        // multi collector: new name "a" (help x) then "b" with a different help => must fail
        let res = r.register(Box::new(Multi { descs: vec![mk_desc("a", "x"), mk_desc("b", "h2")] }));
        assert!(res.is_err());
        // now "a" with help y must be accepted (nothing named "a" was ever successfully registered)
        let res2 = r.register(Box::new(Multi { descs: vec![mk_desc("a", "y")] }));
        assert!(res2.is_ok());
        std::mem::forget(r);
    }

    pub fn cheap_desc(fq_name: String, help: String, variable_labels: Vec<String>, const_labels: HashMap<String,String>) -> prometheus::Result<Desc> {
        std::mem::forget(const_labels);
        Ok(Desc { fq_name, help, const_label_pairs: Vec::new(), variable_labels, id: 0, dim_hash: 0 })
    }

    // C05/C10 cost probe: vec get-or-create with label value chosen from a pool
    #[kani::proof]
    #[kani::unwind(6)]
    #[kani::stub(std::hash::RandomState::new, fixed_random_state)]
    #[kani::stub(std::fmt::format, fmt_stub)]
    #[kani::stub(parking_lot::RawRwLock::lock_exclusive_slow, slow_lock)]
    #[kani::stub(parking_lot::RawRwLock::lock_shared_slow, slow_lock_shared)]
    #[kani::stub(parking_lot::RawRwLock::unlock_exclusive_slow, slow_unlock)]
    #[kani::stub(parking_lot::RawRwLock::unlock_shared_slow, slow_unlock_shared)]
    fn vec_pool() {
        let v = prometheus::IntCounterVec::new(Opts::new("a", "h"), &["x", "y"]).unwrap();
        let pool = ["ab", "a", "bc", "c"];
        let i: usize = kani::any(); let j: usize = kani::any(); let k: usize = kani::any(); let l: usize = kani::any();
        kani::assume(i < 4 && j < 4 && k < 4 && l < 4);
        let ca = v.get_metric_with_label_values(&[pool[i], pool[j]]).unwrap();
        ca.inc();
        let cb = v.get_metric_with_label_values(&[pool[k], pool[l]]).unwrap();
        let same = i == k && j == l;
        assert!((cb.get() == 1) == same);
        std::mem::forget(ca); std::mem::forget(cb); std::mem::forget(v);
    }

    // C08 cost probe: symbolic bounds, concrete length 2
    #[kani::proof]
    #[kani::unwind(5)]
    #[kani::stub(std::hash::RandomState::new, fixed_random_state)]
    #[kani::stub(std::fmt::format, fmt_stub)]
    #[kani::stub(prometheus::core::Desc::new, cheap_desc)]
    fn hist_symbolic_bounds_accept() {
        let b0: f64 = kani::any();
        let b1: f64 = kani::any();
        kani::assume(!(b1 == f64::INFINITY));
        let mut bv = vec![0.0, 0.0];
        bv[0] = b0; bv[1] = b1;
        let r = prometheus::Histogram::with_opts(prometheus::HistogramOpts::new("a", "h").buckets(bv));
        let spec_ok = b0 < b1; // strictly increasing numbers (NaN never compares)
        assert!(r.is_ok() == spec_ok);
        std::mem::forget(r);
    }

    static mut NOW_S: u64 = 0;
    pub fn now_stub() -> std::time::Instant {
        unsafe {
            let d: u64 = kani::any();
            kani::assume(d < 1000);
            NOW_S += d;
            let n: u32 = kani::any();
            kani::assume(n < 1_000_000_000);
            std::mem::transmute::<(u64, u32), std::time::Instant>((NOW_S, n))
        }
    }
    // C18 cost probe: timers with a symbolic clock
    #[kani::proof]
    #[kani::unwind(5)]
    #[kani::stub(std::hash::RandomState::new, fixed_random_state)]
    #[kani::stub(std::fmt::format, fmt_stub)]
    #[kani::stub(prometheus::core::Desc::new, cheap_desc)]
    #[kani::stub(std::time::Instant::now, now_stub)]
    fn timer_once() {
        let h = prometheus::Histogram::with_opts(prometheus::HistogramOpts::new("a", "h").buckets(vec![1.0])).unwrap();
        let t1 = h.start_timer();
        let t2 = h.start_timer();
        let which: u8 = kani::any();
        kani::assume(which < 4);
        let expect = match which {
            0 => { t1.observe_duration(); 1 }
            1 => { let v = t1.stop_and_record(); assert!(v >= 0.0); 1 }
            2 => { let v = t1.stop_and_discard(); assert!(v >= 0.0); 0 }
            _ => { drop(t1); 1 }
        };
        assert!(h.get_sample_count() == expect);
        drop(t2);
        assert!(h.get_sample_count() == expect + 1);
        assert!(h.get_sample_sum() >= 0.0);
        std::mem::forget(h);
    }

    static mut DEPTH: u32 = 0;
    static mut INTERPOSED: u32 = 0;
    static mut VEC: Option<prometheus::IntCounterVec> = None;
    fn interpose() {
        unsafe {
            if DEPTH > 0 || INTERPOSED >= 1 { return; }
            if kani::any() {
                DEPTH += 1; INTERPOSED += 1;
                // another thread creates the same child and increments it
                VEC.as_ref().unwrap().get_metric_with_label_values(&["p"]).unwrap().inc();
                DEPTH -= 1;
            }
        }
    }
    pub fn write_stub<R: lock_api::RawRwLock, T: ?Sized>(this: &lock_api::RwLock<R, T>) -> lock_api::RwLockWriteGuard<'_, R, T> {
        interpose();
        unsafe { this.raw().lock_exclusive(); this.make_write_guard_unchecked() }
    }
    #[kani::proof]
    #[kani::unwind(6)]
    #[kani::stub(std::hash::RandomState::new, fixed_random_state)]
    #[kani::stub(std::fmt::format, fmt_stub)]
    #[kani::stub(parking_lot::RawRwLock::lock_exclusive_slow, slow_lock)]
    #[kani::stub(parking_lot::RawRwLock::lock_shared_slow, slow_lock_shared)]
    #[kani::stub(parking_lot::RawRwLock::unlock_exclusive_slow, slow_unlock)]
    #[kani::stub(parking_lot::RawRwLock::unlock_shared_slow, slow_unlock_shared)]
    #[kani::stub(lock_api::RwLock::write, write_stub)]
    fn vec_interpose() {
        let v = prometheus::IntCounterVec::new(Opts::new("a", "h"), &["x"]).unwrap();
        unsafe { VEC = Some(v.clone()); }
        let c = v.get_metric_with_label_values(&["p"]).unwrap();
        c.inc();
        let n = unsafe { INTERPOSED } as u64;
        // both creators must have got the same child: no update lost
        assert!(v.get_metric_with_label_values(&["p"]).unwrap().get() == 1 + n);
        kani::cover!(n == 1, "another creator ran between the read miss and the write lock");
        std::mem::forget(c); std::mem::forget(v);
    }
}
