#![allow(static_mut_refs)]
#[cfg(kani)]
mod vsched {
    //! Lal-Reps round-robin sequentialization runtime (prototype 2: eager registration, no loops).
    use std::sync::atomic::{AtomicU32, AtomicU64, Ordering};
    pub const K: usize = 3;
    pub const NCELL: usize = 12;
    #[derive(Clone, Copy)]
    pub struct Cell { pub ptr: *const u8, pub v: [u64; K], pub guess: [u64; K] }
    pub static mut CELLS: [Cell; NCELL] = [Cell { ptr: std::ptr::null(), v: [0; K], guess: [0; K] }; NCELL];
    pub static mut NCELLS: usize = 0;
    pub static mut ROUND: usize = 0;
    /// 0 = passthrough, 1 = register (passthrough + record address), 2 = active (versioned)
    pub static mut MODE: u8 = 0;

    pub fn sched_point() {
        unsafe {
            let nr: usize = kani::any();
            kani::assume(nr >= ROUND && nr < K);
            ROUND = nr;
        }
    }
    macro_rules! try_cell { ($p:expr, $($i:expr),*) => { $( if $i < NCELLS && CELLS[$i].ptr == $p { return $i; } )* } }
    unsafe fn find(p: *const u8) -> usize {
        try_cell!(p, 0, 1, 2, 3, 4, 5, 6, 7, 8, 9, 10, 11);
        NCELL
    }
    unsafe fn register(p: *const u8) {
        if find(p) < NCELL { return; }
        assert!(NCELLS < NCELL);
        CELLS[NCELLS].ptr = p;
        NCELLS += 1;
    }
    unsafe fn cell(p: *const u8) -> usize {
        let i = find(p);
        assert!(i < NCELL, "atomic touched in a thread was not registered in warm-up");
        i
    }
    macro_rules! ops {
        ($ty:ty, $at:ty, $load:ident, $store:ident, $fadd:ident, $swap:ident, $cas:ident, $blocking_cas:expr) => {
            pub fn $load(this: &$at, _o: Ordering) -> $ty { unsafe {
                let p = this.as_ptr();
                if MODE == 1 { register(p as *const u8); }
                if MODE != 2 { return *p; }
                sched_point();
                CELLS[cell(p as *const u8)].v[ROUND] as $ty
            } }
            pub fn $store(this: &$at, val: $ty, _o: Ordering) { unsafe {
                let p = this.as_ptr();
                if MODE == 1 { register(p as *const u8); }
                if MODE != 2 { *p = val; return; }
                sched_point();
                CELLS[cell(p as *const u8)].v[ROUND] = val as u64;
            } }
            pub fn $fadd(this: &$at, val: $ty, _o: Ordering) -> $ty { unsafe {
                let p = this.as_ptr();
                if MODE == 1 { register(p as *const u8); }
                if MODE != 2 { let old = *p; *p = old.wrapping_add(val); return old; }
                sched_point();
                let i = cell(p as *const u8);
                let old = CELLS[i].v[ROUND] as $ty;
                CELLS[i].v[ROUND] = old.wrapping_add(val) as u64;
                old
            } }
            pub fn $swap(this: &$at, val: $ty, _o: Ordering) -> $ty { unsafe {
                let p = this.as_ptr();
                if MODE == 1 { register(p as *const u8); }
                if MODE != 2 { let old = *p; *p = val; return old; }
                sched_point();
                let i = cell(p as *const u8);
                let old = CELLS[i].v[ROUND] as $ty;
                CELLS[i].v[ROUND] = val as u64;
                old
            } }
            pub fn $cas(this: &$at, cur: $ty, new: $ty, _s: Ordering, _f: Ordering) -> Result<$ty, $ty> { unsafe {
                let p = this.as_ptr();
                if MODE == 1 { register(p as *const u8); }
                if MODE != 2 { let old = *p; if old == cur { *p = new; return Ok(old); } else { return Err(old); } }
                sched_point();
                let i = cell(p as *const u8);
                let old = CELLS[i].v[ROUND] as $ty;
                if $blocking_cas { kani::assume(old == cur); CELLS[i].v[ROUND] = new as u64; return Ok(cur); }
                if old == cur { CELLS[i].v[ROUND] = new as u64; Ok(old) } else { Err(old) }
            } }
        };
    }
    ops!(u64, AtomicU64, load64, store64, fadd64, swap64, cas64, false);
    ops!(u32, AtomicU32, load32, store32, fadd32, swap32, cas32, true);

    pub fn begin_register() { unsafe { MODE = 1; } }
    /// Snapshot physical state into version 0, guess later versions, start versioned mode.
    pub fn begin_threads() { unsafe {
        MODE = 2;
        macro_rules! init { ($($i:expr),*) => { $( if $i < NCELLS {
            // all registered cells are read as 8 bytes only if they are u64; u32 cells read 4 bytes
            CELLS[$i].v[0] = if IS32[$i] { *(CELLS[$i].ptr as *const u32) as u64 } else { *(CELLS[$i].ptr as *const u64) };
            let g1: u64 = kani::any(); let g2: u64 = kani::any();
            if IS32[$i] { kani::assume(g1 <= u32::MAX as u64 && g2 <= u32::MAX as u64); }
            CELLS[$i].v[1] = g1; CELLS[$i].guess[1] = g1;
            CELLS[$i].v[2] = g2; CELLS[$i].guess[2] = g2;
        } )* } }
        init!(0, 1, 2, 3, 4, 5, 6, 7, 8, 9, 10, 11);
    } }
    pub static mut IS32: [bool; NCELL] = [false; NCELL];
    pub fn mark32_last() { unsafe { IS32[NCELLS - 1] = true; } }
    pub fn ncells() -> usize { unsafe { NCELLS } }
    pub fn start_thread() { unsafe { ROUND = 0; } }
    pub fn round() -> usize { unsafe { ROUND } }
    pub fn assume_consistent() { unsafe {
        macro_rules! chk { ($($i:expr),*) => { $( if $i < NCELLS {
            kani::assume(CELLS[$i].v[0] == CELLS[$i].guess[1]);
            kani::assume(CELLS[$i].v[1] == CELLS[$i].guess[2]);
        } )* } }
        chk!(0, 1, 2, 3, 4, 5, 6, 7, 8, 9, 10, 11);
        ROUND = K - 1;
    } }
}

#[cfg(kani)]
mod proofs {
    use super::vsched::*;
    use prometheus::*;

    pub fn fixed_random_state() -> std::hash::RandomState {
        unsafe { std::mem::transmute::<(u64, u64), std::hash::RandomState>((0, 0)) }
    }
    pub fn fmt_stub(_a: std::fmt::Arguments<'_>) -> String { String::new() }
    pub fn cheap_desc(fq_name: String, help: String, variable_labels: Vec<String>, const_labels: std::collections::HashMap<String,String>) -> Result<core::Desc> {
        std::mem::forget(const_labels);
        Ok(core::Desc { fq_name, help, const_label_pairs: Vec::new(), variable_labels, id: 0, dim_hash: 0 })
    }

    #[kani::proof]
    #[kani::unwind(5)]
    #[kani::stub(std::hash::RandomState::new, fixed_random_state)]
    #[kani::stub(std::fmt::format, fmt_stub)]
    #[kani::stub(prometheus::core::Desc::new, cheap_desc)]
    #[kani::stub(std::sync::atomic::Atomic::<u64>::load, load64)]
    #[kani::stub(std::sync::atomic::Atomic::<u64>::store, store64)]
    #[kani::stub(std::sync::atomic::Atomic::<u64>::fetch_add, fadd64)]
    #[kani::stub(std::sync::atomic::Atomic::<u64>::swap, swap64)]
    #[kani::stub(std::sync::atomic::Atomic::<u64>::compare_exchange_weak, cas64)]
    #[kani::stub(std::sync::atomic::Atomic::<u32>::compare_exchange, cas32)]
    #[kani::stub(std::sync::atomic::Atomic::<u32>::swap, swap32)]
    fn hist_obs_vs_collect() {
        use prometheus::core::Metric;
        let h = Histogram::with_opts(HistogramOpts::new("a", "h").buckets(vec![1.0])).unwrap();
        // warm-up: register every atomic cell (a collect touches the lock word first, then all shard cells)
        begin_register();
        let w = h.metric();
        std::mem::forget(w);
        assert!(ncells() == 8);
        // the lock word is the first cell touched by proto()
        unsafe { IS32[0] = true; }
        let a: u8 = kani::any();
        kani::assume(a < 4);
        let va = a as f64;
        begin_threads();
        // thread 1: observer
        start_thread();
        h.observe(va);
        let t1_end = round();
        // thread 2: collector
        start_thread();
        sched_point();
        let t2_begin = round();
        let m = h.metric();
        assume_consistent();
        let hp = m.get_histogram();
        let cnt = hp.get_sample_count();
        let sum = hp.get_sample_sum();
        let bs = hp.get_bucket();
        assert!(bs.len() == 1);
        let c0 = bs[0].cumulative_count();
        let empty = cnt == 0 && sum == 0.0 && c0 == 0;
        let full = cnt == 1 && sum == va && c0 == (va <= 1.0) as u64;
        assert!(empty || full);
        if t1_end <= t2_begin { assert!(full); }
        kani::cover!(empty, "collector missed in-flight observation");
        kani::cover!(full && t1_end > t2_begin, "collector waited for in-flight observation");
        assert!(h.get_sample_count() == 1);
        std::mem::forget(m);
        std::mem::forget(h);
    }
}
