//! unit-level probes (placement (b))
use crate::counter::IntCounterVec;
use crate::metrics::Opts;

pub fn fixed_random_state() -> std::hash::RandomState {
    unsafe { std::mem::transmute::<(u64, u64), std::hash::RandomState>((0, 0)) }
}
pub fn fmt_stub(_a: std::fmt::Arguments<'_>) -> String { String::new() }
const BASIS: u64 = 0xcbf29ce484222325;
pub fn fnv_write_stub(h: &mut fnv::FnvHasher, bytes: &[u8]) {
    let s: &mut u64 = unsafe { &mut *(h as *mut fnv::FnvHasher as *mut u64) };
    if *s == BASIS { *s = 1; }
    let mut i = 0;
    while i < bytes.len() {
        assert!(*s < (1u64 << 56), "stream longer than 7 bytes: outside the bound");
        *s = (*s << 8) | bytes[i] as u64;
        i += 1;
    }
}
fn sym_ascii(max: usize) -> String {
    let n: usize = kani::any();
    kani::assume(n <= max);
    let mut s = String::new();
    let mut i = 0;
    while i < max {
        if i < n { let c: u8 = kani::any(); kani::assume(c < 128); s.push(c as char); }
        i += 1;
    }
    s
}

#[kani::proof]
#[kani::unwind(6)]
#[kani::stub(std::hash::RandomState::new, fixed_random_state)]
#[kani::stub(std::fmt::format, fmt_stub)]
#[kani::stub(<fnv::FnvHasher as std::hash::Hasher>::write, fnv_write_stub)]
fn unit_hash_label_values_injective() {
    let v = IntCounterVec::new(Opts::new("a", "h"), &["x", "y"]).unwrap();
    let a1 = sym_ascii(2); let a2 = sym_ascii(2);
    let b1 = sym_ascii(2); let b2 = sym_ascii(2);
    let ha = v.v.hash_label_values(&[a1.as_str(), a2.as_str()]).unwrap();
    let hb = v.v.hash_label_values(&[b1.as_str(), b2.as_str()]).unwrap();
    let same = a1 == b1 && a2 == b2;
    assert!((ha == hb) == same);
    std::mem::forget(v);
}

fn pick_char() -> char {
    let k: u8 = kani::any();
    kani::assume(k < 6);
    match k { 0 => '\\', 1 => '"', 2 => '\n', 3 => 'a', 4 => '\r', _ => 'é' }
}
fn ref_escape(s: &str, q: bool) -> String {
    let mut o = String::new();
    for c in s.chars() {
        match c {
            '\\' => { o.push('\\'); o.push('\\'); }
            '\n' => { o.push('\\'); o.push('n'); }
            '"' if q => { o.push('\\'); o.push('"'); }
            c => o.push(c),
        }
    }
    o
}
pub fn naive_first(v: &str, q: bool) -> Option<usize> {
    if q { naive3(b'\\', b'\n', b'"', v.as_bytes()) } else { naive2(b'\\', b'\n', v.as_bytes()) }
}
pub fn naive3(a: u8, b: u8, c: u8, h: &[u8]) -> Option<usize> {
    let mut i = 0;
    while i < h.len() { if h[i] == a || h[i] == b || h[i] == c { return Some(i); } i += 1; }
    None
}
pub fn naive2(a: u8, b: u8, h: &[u8]) -> Option<usize> {
    let mut i = 0;
    while i < h.len() { if h[i] == a || h[i] == b { return Some(i); } i += 1; }
    None
}
#[kani::proof]
#[kani::unwind(8)]
#[kani::stub(crate::encoder::text::find_first_occurence, naive_first)]
fn unit_escape_string() {
    let n: usize = kani::any();
    kani::assume(n <= 3);
    let mut s = String::new();
    let mut i = 0;
    while i < 3 { if i < n { s.push(pick_char()); } i += 1; }
    let q: bool = kani::any();
    let got = crate::encoder::verif_escape(&s, q);
    let want = ref_escape(&s, q);
    assert!(got == want);
    assert!(!got.as_bytes().contains(&b'\n'));
}

pub fn cheap_desc(fq_name: String, help: String, variable_labels: Vec<String>, const_labels: std::collections::HashMap<String,String>) -> crate::errors::Result<crate::desc::Desc> {
    std::mem::forget(const_labels);
    Ok(crate::desc::Desc { fq_name, help, const_label_pairs: Vec::new(), variable_labels, id: 0, dim_hash: 0 })
}
fn sym_slice(buf: &[u8; 2]) -> &str {
    let n: usize = kani::any();
    kani::assume(n <= 2);
    kani::assume(buf[0] < 128 && buf[1] < 128);
    unsafe { std::str::from_utf8_unchecked(&buf[..n]) }
}
#[kani::proof]
#[kani::unwind(4)]
#[kani::stub(std::hash::RandomState::new, fixed_random_state)]
#[kani::stub(std::fmt::format, fmt_stub)]
#[kani::stub(crate::desc::Desc::new, cheap_desc)]
#[kani::stub(<fnv::FnvHasher as std::hash::Hasher>::write, fnv_write_stub)]
fn unit_hash_label_values_injective2() {
    let v = IntCounterVec::new(Opts::new("a", "h"), &["x", "y"]).unwrap();
    let (a1b, a2b, b1b, b2b): ([u8; 2], [u8; 2], [u8; 2], [u8; 2]) = (kani::any(), kani::any(), kani::any(), kani::any());
    let (a1, a2, b1, b2) = (sym_slice(&a1b), sym_slice(&a2b), sym_slice(&b1b), sym_slice(&b2b));
    let ha = v.v.hash_label_values(&[a1, a2]).unwrap();
    let hb = v.v.hash_label_values(&[b1, b2]).unwrap();
    let same = a1.len() == b1.len() && a2.len() == b2.len()
        && (a1.len() < 1 || a1b[0] == b1b[0]) && (a1.len() < 2 || a1b[1] == b1b[1])
        && (a2.len() < 1 || a2b[0] == b2b[0]) && (a2.len() < 2 || a2b[1] == b2b[1]);
    assert!((ha == hb) == same);
    std::mem::forget(v);
}

use crate::desc::Desc;
use crate::metrics::Collector;
struct Multi { descs: Vec<Desc> }
impl Collector for Multi {
    fn desc(&self) -> Vec<&Desc> { self.descs.iter().collect() }
    fn collect(&self) -> Vec<crate::proto::MetricFamily> { Vec::new() }
}
fn d(name: &str, id: u64, dim: u64) -> Desc {
    Desc { fq_name: name.to_string(), help: String::new(), const_label_pairs: Vec::new(), variable_labels: Vec::new(), id, dim_hash: dim }
}
#[kani::proof]
#[kani::unwind(5)]
#[kani::stub(std::fmt::format, fmt_stub)]
fn unit_registry_no_residue() {
    let mut core = crate::registry::RegistryCore::default();
    let (i1, i2, i3, i4): (u64, u64, u64, u64) = (kani::any(), kani::any(), kani::any(), kani::any());
    let (x, y, z, w): (u64, u64, u64, u64) = (kani::any(), kani::any(), kani::any(), kani::any());
    kani::assume(i1 != i2 && i1 != i3 && i1 != i4 && i2 != i3 && i2 != i4 && i3 != i4);
    kani::assume(i2.wrapping_add(i3) != i1 && i4 != i2.wrapping_add(i3));
    kani::assume(z != x);
    let r1 = core.register(Box::new(Multi { descs: vec![d("b", i1, x)] }));
    assert!(r1.is_ok());
    // second descriptor disagrees with the registered dim signature of "b" => refused
    let r2 = core.register(Box::new(Multi { descs: vec![d("a", i2, y), d("b", i3, z)] }));
    assert!(r2.is_err());
    // nothing named "a" was ever successfully registered: any dim signature must be admitted
    let r3 = core.register(Box::new(Multi { descs: vec![d("a", i4, w)] }));
    assert!(r3.is_ok());
    std::mem::forget(core); std::mem::forget(r2);
}
