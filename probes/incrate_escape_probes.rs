//! unit-level probe: escape_string
pub fn naive_first(v: &str, q: bool) -> Option<usize> {
    let h = v.as_bytes();
    let mut i = 0;
    while i < h.len() {
        if h[i] == b'\\' || h[i] == b'\n' || (q && h[i] == b'"') { return Some(i); }
        i += 1;
    }
    None
}
fn pick_char() -> char {
    let k: u8 = kani::any();
    kani::assume(k < 6);
    match k { 0 => '\\', 1 => '"', 2 => '\n', 3 => 'a', 4 => '\r', _ => 'é' }
}
fn ref_escape(s: &str, q: bool) -> String {
    let mut o = String::new();
    for c in s.chars() {
        match c {
            '\\' => { o.push('\\'); o.push('\\'); }
            '\n' => { o.push('\\'); o.push('n'); }
            '"' if q => { o.push('\\'); o.push('"'); }
            c => o.push(c),
        }
    }
    o
}
#[kani::proof]
#[kani::unwind(8)]
#[kani::stub(crate::encoder::text::find_first_occurence, naive_first)]
fn unit_escape_string() {
    let n: usize = kani::any();
    kani::assume(n <= 3);
    let mut s = String::new();
    let mut i = 0;
    while i < 3 { if i < n { s.push(pick_char()); } i += 1; }
    let q: bool = kani::any();
    let got = crate::encoder::verif_escape(&s, q);
    let want = ref_escape(&s, q);
    assert!(got == want);
    kani::cover!(got.len() == 6 && n == 3, "every char needed escaping");
    std::mem::forget(got); std::mem::forget(want); std::mem::forget(s);
}

#[kani::proof]
#[kani::unwind(8)]
#[kani::stub(crate::encoder::text::find_first_occurence, naive_first)]
fn unit_escape_string_bytes() {
    let buf: [u8; 3] = kani::any();
    let n: usize = kani::any();
    kani::assume(n <= 3);
    let ok = |b: u8| b == b'\\' || b == b'"' || b == b'\n' || b == b'a' || b == b'\r';
    kani::assume(ok(buf[0]) && ok(buf[1]) && ok(buf[2]));
    let s: &str = unsafe { std::str::from_utf8_unchecked(&buf[..n]) };
    let q: bool = kani::any();
    let got = crate::encoder::verif_escape(s, q);
    // reference rendering into a fixed buffer
    let mut want = [0u8; 6];
    let mut m = 0usize;
    let mut i = 0usize;
    while i < 3 {
        if i < n {
            let b = buf[i];
            if b == b'\\' { want[m] = b'\\'; want[m + 1] = b'\\'; m += 2; }
            else if b == b'\n' { want[m] = b'\\'; want[m + 1] = b'n'; m += 2; }
            else if b == b'"' && q { want[m] = b'\\'; want[m + 1] = b'"'; m += 2; }
            else { want[m] = b; m += 1; }
        }
        i += 1;
    }
    let g = got.as_bytes();
    assert!(g.len() == m);
    let mut j = 0usize;
    while j < 6 { if j < m { assert!(g[j] == want[j]); } j += 1; }
    kani::cover!(m == 6, "every byte needed escaping");
    std::mem::forget(got);
}

#[kani::proof]
#[kani::unwind(8)]
#[kani::stub(crate::encoder::text::find_first_occurence, naive_first)]
fn unit_escape_string_len3() {
    let buf: [u8; 3] = kani::any();
    let n: usize = 3;
    let ok = |b: u8| b == b'\\' || b == b'"' || b == b'\n' || b == b'a' || b == b'\r';
    kani::assume(ok(buf[0]) && ok(buf[1]) && ok(buf[2]));
    let s: &str = unsafe { std::str::from_utf8_unchecked(&buf[..n]) };
    let q: bool = kani::any();
    let got = crate::encoder::verif_escape(s, q);
    // reference rendering into a fixed buffer
    let mut want = [0u8; 6];
    let mut m = 0usize;
    let mut i = 0usize;
    while i < 3 {
        if i < n {
            let b = buf[i];
            if b == b'\\' { want[m] = b'\\'; want[m + 1] = b'\\'; m += 2; }
            else if b == b'\n' { want[m] = b'\\'; want[m + 1] = b'n'; m += 2; }
            else if b == b'"' && q { want[m] = b'\\'; want[m + 1] = b'"'; m += 2; }
            else { want[m] = b; m += 1; }
        }
        i += 1;
    }
    let g = got.as_bytes();
    assert!(g.len() == m);
    let mut j = 0usize;
    while j < 6 { if j < m { assert!(g[j] == want[j]); } j += 1; }
    kani::cover!(m == 6, "every byte needed escaping");
    std::mem::forget(got);
}
