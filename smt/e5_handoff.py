#!/usr/bin/env python3
"""E5 -- the histogram count hand-off under the C11/RC11 release/acquire axioms, decided by z3.

Regenerated from /repo on every run:
  1. `cargo +nightly rustc -- -Zunpretty=mir` dumps the crate's MIR;
  2. a small MIR reader walks HistogramCore::observe, HistogramCore::proto and
     LocalHistogramCore::flush and the crate functions they call, down to the
     `std::sync::atomic::Atomic::<T>::{load,store,swap,fetch_add,fetch_sub,compare_exchange*}` leaves,
     propagating memory-ordering constants through call arguments, and produces for each of the
     three functions the program-ordered list of atomic events (location class, kind, ordering).
     Anything it cannot classify makes the check fail closed (exit 2);
  3. one observer (or one local flush) and one collector are instantiated in an axiomatic encoding
     of the RC11 fragment needed (po, rf, per-location mo, release sequences, sw, hb acyclicity,
     coherence, RMW atomicity) and z3 is asked for a consistent execution in which the collector's
     successful compare-exchange on the cold shard's count reads the observer's publication while
     its drain of the cold bucket / sum misses the observer's update.  unsat = hand-off safe.

Bounds: 1 observer/flush x 1 collector, 1 bucket, every retry loop taken with its final
(successful) iteration only.  A twin query with the publication weakened to Relaxed must be sat
(non-vacuity witness).
"""
import json, os, re, subprocess, sys, time

REPO = os.environ.get("VERIF_REPO", "/repo")
VERIF = os.path.dirname(os.path.dirname(os.path.abspath(__file__)))
BUILD = os.path.join(VERIF, ".build")

ORD_NAMES = ["Relaxed", "Release", "Acquire", "AcqRel", "SeqCst"]


class Inconclusive(Exception):
    pass


# ------------------------------------------------------------------------------------------------
# MIR reader
# ------------------------------------------------------------------------------------------------
def dump_mir():
    os.makedirs(BUILD, exist_ok=True)
    out = os.path.join(BUILD, "mir_e5.txt")
    subprocess.run(["touch", os.path.join(REPO, "src", "lib.rs")], check=False)
    env = dict(os.environ)
    env["CARGO_NET_OFFLINE"] = "true"
    env.pop("RUSTFLAGS", None)
    t0 = time.time()
    p = subprocess.run(["cargo", "+nightly", "rustc", "--offline", "--lib", "--no-default-features", "--target-dir",
                        os.path.join(BUILD, "mir_target" + os.environ.get("VERIF_TARGET_SUFFIX", "")), "--", "-Zunpretty=mir", "-C", "debug-assertions=off"],
                       cwd=REPO, env=env, stdout=subprocess.PIPE, stderr=subprocess.PIPE, text=True)
    if p.returncode != 0 or "fn " not in p.stdout:
        raise Inconclusive("MIR dump failed: " + p.stderr[-800:])
    open(out, "w").write(p.stdout)
    return p.stdout, time.time() - t0


def split_args(s):
    out, depth, cur = [], 0, ""
    for ch in s:
        if ch in "(<[{":
            depth += 1
        elif ch in ")>]}":
            depth -= 1
        if ch == "," and depth == 0:
            out.append(cur.strip())
            cur = ""
        else:
            cur += ch
    if cur.strip():
        out.append(cur.strip())
    return out


class Fn:
    def __init__(self, header):
        self.header = header
        m = re.match(r"^fn (.+?)\((.*)\) -> (.+) \{$", header)
        if not m:
            raise Inconclusive("unparsed fn header: " + header)
        self.path = m.group(1)
        self.method = self.path.split("::")[-1]
        self.params = []
        for a in split_args(m.group(2)):
            pm = re.match(r"^(?:mut )?(_\d+): (.*)$", a)
            if pm:
                self.params.append((pm.group(1), pm.group(2)))
        self.blocks = {}   # name -> (stmts, terminator, cleanup)
        self.order = []


def last_seg(ty):
    ty = ty.strip().lstrip("&").replace("mut ", "").strip()
    ty = re.sub(r"<.*>$", "", ty)
    return ty.split("::")[-1]


def parse_mir(text):
    fns = []
    cur = None
    blk = None
    for line in text.splitlines():
        if line.startswith("fn "):
            cur = Fn(line)
            fns.append(cur)
            blk = None
            continue
        if cur is None:
            continue
        m = re.match(r"^    (bb\d+)( \(cleanup\))?: \{$", line)
        if m:
            blk = m.group(1)
            cur.blocks[blk] = dict(stmts=[], cleanup=bool(m.group(2)))
            cur.order.append(blk)
            continue
        if line == "}":
            cur = None
            continue
        if blk and line.startswith("        ") and line.strip() != "}":
            cur.blocks[blk]["stmts"].append(line.strip())
    return fns


def successors(stmt):
    """non-unwind successor block names of a terminator line"""
    succ = []
    m = re.search(r"-> \[(.*)\];$", stmt)
    if m:
        for part in split_args(m.group(1)):
            k, _, v = part.partition(":")
            k, v = k.strip(), v.strip()
            if k == "unwind":
                continue
            if v.startswith("bb"):
                succ.append(v)
        return succ
    m = re.search(r"goto -> (bb\d+);", stmt)
    if m:
        return [m.group(1)]
    return succ


def rpo(fn):
    seen, post = set(), []

    def dfs(b):
        seen.add(b)
        st = fn.blocks[b]["stmts"]
        term = st[-1] if st else ""
        for s in successors(term):
            if s in fn.blocks and s not in seen and not fn.blocks[s]["cleanup"]:
                dfs(s)
        post.append(b)
    if "bb0" in fn.blocks:
        sys.setrecursionlimit(10000)
        dfs("bb0")
    return list(reversed(post))



def parse_place(expr, val):
    """`((*_1).3: T)`, `(((*_1).0: A).0: B)`, `((*_1).4: [S; 2])[_9]`, `(*_8)` -> path or None"""
    expr = expr.strip()
    idx = None
    m = re.match(r"^(.*)\[(_\d+)\]$", expr)
    if m and m.group(1).endswith(")"):
        expr, idx = m.group(1), m.group(2)
    path = None
    m = re.match(r"^\(\*(_\d+)\)$", expr)
    if m:
        b = val.get(m.group(1))
        path = list(b[1]) if b and b[0] == "place" else None
    elif re.match(r"^_\d+$", expr):
        b = val.get(expr)
        path = list(b[1]) if b and b[0] == "place" else None
    elif expr.startswith("(") and expr.endswith(")"):
        inner = expr[1:-1]
        # split at the last ".N: " at depth 0
        depth, pos = 0, -1
        for i, ch in enumerate(inner):
            if ch in "(<[":
                depth += 1
            elif ch in ")>]":
                depth -= 1
            elif ch == "." and depth == 0 and re.match(r"^\.\d+: ", inner[i:]):
                pos = i
        if pos >= 0:
            base = parse_place(inner[:pos], val)
            fm = re.match(r"^\.(\d+): (.*)$", inner[pos:])
            if base is not None and fm:
                path = base + [("field", int(fm.group(1)), fm.group(2))]
    if path is not None and idx is not None:
        path = path + [("index", val.get(idx, ("unknown", idx)))]
    return path


LEAF_RE = re.compile(r"std::sync::atomic::Atomic::<(\w+)>::(load|store|swap|fetch_add|fetch_sub|compare_exchange_weak|compare_exchange)$")
CALL_RE = re.compile(r"^(_\d+) = (.+?)\((.*)\) -> \[.*\];$")


class Analyzer:
    def __init__(self, fns):
        self.fns = fns
        self.by_key = {}
        for f in fns:
            recv = last_seg(f.params[0][1]) if f.params else ""
            self.by_key.setdefault((f.method, recv), []).append(f)
        self.cache = {}

    def find(self, callee, nargs):
        """callee text at a call site -> Fn (crate function) or None"""
        c = callee.strip()
        m = re.match(r"^<(.+?) as (.+?)>::(\w+)(::<.*>)?$", c)
        if m:
            recv, method = last_seg(m.group(1)), m.group(3)
        else:
            parts = re.sub(r"::<[^>]*>$", "", c).split("::")
            if len(parts) < 2:
                return None
            method = parts[-1]
            recv = last_seg(re.sub(r"<.*>$", "", parts[-2]))
        cands = [f for f in self.by_key.get((method, recv), []) if len(f.params) == nargs]
        if len(cands) == 1:
            return cands[0]
        return None

    def summarize(self, fn, depth=0):
        """-> list of events: dict(kind, ord (str or ('param', i)), ord_fail, loc (list of path segs, starting with ('param', i)), opt)"""
        if id(fn) in self.cache:
            return self.cache[id(fn)]
        if depth > 8:
            raise Inconclusive("call depth exceeded in " + fn.path)
        self.cache[id(fn)] = []  # recursion guard
        val = {}  # local -> abstract value
        for i, (p, ty) in enumerate(fn.params):
            val[p] = ("place", [("param", i + 1)])
        events = []

        def operand(tok):
            tok = tok.strip()
            m = re.match(r"^(?:move|copy) (_\d+)$", tok)
            if m:
                return val.get(m.group(1), ("unknown", tok))
            if tok.startswith("const "):
                return ("const", tok[6:])
            m = re.match(r"^(?:move|copy) \((_\d+)\.(\d+): ([^)]*)\)$", tok)
            if m:
                base = val.get(m.group(1), ("unknown", tok))
                return ("field", base, int(m.group(2)), m.group(3))
            return ("unknown", tok)

        order = rpo(fn)
        # blocks that are not on every path (diamond arms): mark their events optional -- approximated by
        # "block has a single predecessor which ends in switchInt and is not a loop exit"
        for b in order:
            for st in fn.blocks[b]["stmts"]:
                m = re.match(r"^(_\d+) = std::sync::atomic::Ordering::(\w+);$", st)
                if m:
                    val[m.group(1)] = ("ord", m.group(2))
                    continue
                m = re.match(r"^(_\d+) = &(?:mut )?(\(.*);$", st)
                if m:
                    pv = parse_place(m.group(2), val)
                    if pv is not None:
                        val[m.group(1)] = ("place", pv)
                    continue
                m = re.match(r"^(_\d+) = &(?:mut )?\(\*(_\d+)\);$", st)
                if m and m.group(2) in val:
                    val[m.group(1)] = val[m.group(2)]
                    continue
                m = re.match(r"^(_\d+) = (?:move|copy) (_\d+);$", st)
                if m and m.group(2) in val:
                    val[m.group(1)] = val[m.group(2)]
                    continue
                m = re.match(r"^(_\d+) = (?:move|copy) (_\d+) as usize \(IntToInt\);$", st)
                if m and m.group(2) in val:
                    val[m.group(1)] = ("usize_of", val[m.group(2)])
                    continue
                m = re.match(r"^(_\d+) = discriminant\((_\d+)\);$", st)
                if m and m.group(2) in val:
                    val[m.group(1)] = val[m.group(2)]
                    continue
                m = re.match(r"^(_\d+) = (?:move|copy) \((_\d+)\.(\d+): (.+?)\);$", st)
                if m and m.group(2) in val:
                    val[m.group(1)] = ("field", val[m.group(2)], int(m.group(3)), m.group(4))
                    continue
                cm = CALL_RE.match(st)
                if not cm:
                    continue
                dst, callee, args = cm.group(1), cm.group(2), split_args(cm.group(3))
                argv = [operand(a) for a in args]
                lm = LEAF_RE.search(callee.strip())
                if lm:
                    op = lm.group(2)
                    recv = argv[0]
                    if recv[0] != "place":
                        raise Inconclusive(f"atomic op on unclassified receiver in {fn.path}: {st}")
                    if op.startswith("compare_exchange"):
                        o_s, o_f = argv[-2], argv[-1]
                        kind = "cas"
                    else:
                        o_s, o_f = argv[-1], None
                        kind = {"load": "load", "store": "store"}.get(op, "rmw")

                    def ordv(o):
                        if o is None:
                            return None
                        if o[0] == "ord":
                            return o[1]
                        if o[0] == "place" and len(o[1]) == 1 and o[1][0][0] == "param":
                            return ("param", o[1][0][1])
                        raise Inconclusive(f"memory ordering is not a constant or a parameter in {fn.path}: {st}")
                    events.append(dict(kind=kind, op=op, ord=ordv(o_s), ord_fail=ordv(o_f), loc=recv[1], src=fn.path))
                    val[dst] = ("result", op)
                    continue
                c = callee.strip()
                # place-extending std calls
                if re.search(r"(Deref>::deref|__Deref>::deref|Index<usize>>::index|AsRef<.*>>::as_ref|Borrow<.*>>::borrow)$", c) and argv and argv[0][0] == "place":
                    seg = ("index", argv[1]) if "Index" in c and len(argv) > 1 else ("deref",)
                    val[dst] = ("place", argv[0][1] + [seg])
                    continue
                if c.endswith("ShardIndex::inverse") and argv:
                    val[dst] = ("inverse", argv[0])
                    continue
                if re.search(r"<usize as From<.*ShardIndex>>::from$", c) and argv:
                    val[dst] = ("usize_of", argv[0])
                    continue
                target = self.find(c, len(args))
                if target is not None:
                    sub = self.summarize(target, depth + 1)
                    for e in sub:
                        ne = dict(e)
                        # substitute location
                        head = e["loc"][0]
                        if head[0] != "param":
                            raise Inconclusive("callee location not parameter-relative: " + target.path)
                        a = argv[head[1] - 1] if head[1] - 1 < len(argv) else None
                        if not a or a[0] != "place":
                            raise Inconclusive(f"argument {head[1]} of call to {target.path} in {fn.path} is not a classified place: {st}")
                        ne["loc"] = a[1] + e["loc"][1:]
                        for k in ("ord", "ord_fail"):
                            o = e[k]
                            if isinstance(o, tuple) and o[0] == "param":
                                a2 = argv[o[1] - 1] if o[1] - 1 < len(argv) else None
                                if a2 and a2[0] == "ord":
                                    ne[k] = a2[1]
                                elif a2 and a2[0] == "place" and len(a2[1]) == 1 and a2[1][0][0] == "param":
                                    ne[k] = ("param", a2[1][0][1])
                                else:
                                    raise Inconclusive(f"ordering argument of call to {target.path} in {fn.path} not resolvable: {st}")
                        ne["via"] = e.get("via", []) + [target.method]
                        events.append(ne)
                    val[dst] = ("callresult", target.method, argv)
                    continue
                if "sync::Mutex" in c and c.endswith("::lock"):
                    events.append(dict(kind="lock", op="lock", ord="Acquire", ord_fail=None, loc=argv[0][1] if argv and argv[0][0] == "place" else [], src=fn.path))
                    continue
                if re.search(r"atomic::Atomic", c):
                    raise Inconclusive(f"unclassified call on an atomic type in {fn.path}: {st}")
        self.cache[id(fn)] = events
        return events


def classify(ev):
    """loc path -> (class, shard) with class in sac/count/sum/bucket/lock, shard in idx/inv/None"""
    types = [s[2] for s in ev["loc"] if s[0] == "field"]
    shard = None
    for s in ev["loc"]:
        if s[0] == "index" and isinstance(s[1], tuple):
            d = s[1]
            # usize_of(field(callresult ...)) = index returned by the shard_and_count operation
            txt = repr(d)
            if "Shard" in "".join(types) or True:
                if "inverse" in txt:
                    shard = "inv"
                elif "callresult" in txt or "result" in txt:
                    shard = shard or "idx"
    if ev["kind"] == "lock":
        return "lock", None
    joined = " | ".join(types)
    if "ShardAndCount" in joined:
        return "sac", None
    if "Shard; 2" in joined or "[histogram::Shard" in joined:
        after = joined.split("Shard; 2]")[-1]
        if "AtomicF64" in after:
            return "sum", shard
        if "Vec<" in after and "AtomicU64" in after:
            return "bucket", shard
        if "AtomicU64" in after:
            return "count", shard
    raise Inconclusive("cannot classify atomic location: " + joined + " in " + ev.get("src", "?"))


def extract(text):
    fns = parse_mir(text)
    an = Analyzer(fns)
    want = {
        "observe": lambda f: f.method == "observe" and f.params and last_seg(f.params[0][1]) == "HistogramCore",
        "proto": lambda f: f.method == "proto" and f.params and last_seg(f.params[0][1]) == "HistogramCore",
        "flush": lambda f: f.method == "flush" and f.params and last_seg(f.params[0][1]) == "LocalHistogramCore",
    }
    out = {}
    for name, pred in want.items():
        c = [f for f in fns if pred(f)]
        if len(c) != 1:
            raise Inconclusive(f"function {name} not found exactly once in MIR ({len(c)})")
        evs = an.summarize(c[0])
        lst = []
        for e in evs:
            cls, shard = classify(e)
            if isinstance(e["ord"], tuple):
                raise Inconclusive(f"unresolved ordering parameter in {name}")
            lst.append(dict(cls=cls, shard=shard, kind=e["kind"], op=e["op"], ord=e["ord"], ord_fail=e["ord_fail"], via=e.get("via", [])))
        out[name] = lst
    return out, len(fns)


# ------------------------------------------------------------------------------------------------
# RC11 fragment in z3
# ------------------------------------------------------------------------------------------------
def is_acq(o):
    return o in ("Acquire", "AcqRel", "SeqCst")


def is_rel(o):
    return o in ("Release", "AcqRel", "SeqCst")


def build_and_solve(observer, collector, target, weaken=None):
    """observer / collector: event lists (program order). target: 'bucket' or 'sum'.
    Asks for an execution where the collector's flip read the observer's claim, the collector's
    CAS on count[idx] read the observer's publication, and the collector's drain of target[idx]
    does not include the observer's update.  -> (result, seconds, witness)"""
    from z3 import Solver, Int, Bool, And, Or, Not, Implies, Distinct, BoolVal, sat

    ev = []  # (name, thread, loc, kind R/W/U, ordering)

    def loc_of(e, role):
        # observer's 'idx' shard is the shard it claimed; in the scenario the flip read the claim, so
        # it is the collector's cold shard: both 'idx' name the same shard.
        if e["cls"] == "sac":
            return "sac"
        return f"{e['cls']}.{e['shard'] or 'idx'}"

    def add_thread(tid, evs, prefix):
        names = []
        seen_cas = set()
        for i, e in enumerate(evs):
            if e["cls"] == "lock":
                continue
            l = loc_of(e, prefix)
            o = e["ord"]
            if weaken and weaken(prefix, e):
                o = "Relaxed"
            if e["kind"] == "load":
                k = "R"
            elif e["kind"] == "store":
                k = "W"
            else:
                k = "U"
            # a retry loop contributes its final successful iteration only: keep one load+cas / one cas per loc
            key = (l, e["kind"], e["op"])
            if e["kind"] in ("cas",) and key in seen_cas:
                continue
            seen_cas.add(key)
            nm = f"{prefix}{i}_{e['op']}_{l}"
            ev.append((nm, tid, l, k, o))
            names.append(nm)
        return names

    o_names = add_thread(1, observer, "o")
    c_names = add_thread(2, collector, "c")
    locs_all = sorted(set(e[2] for e in ev))
    init = [(f"init_{l}", 0, l, "W", "Relaxed") for l in locs_all]
    ev = init + ev
    n = len(ev)
    idx = {e[0]: k for k, e in enumerate(ev)}
    s = Solver()
    s.set("timeout", 120000)
    writes = [k for k in range(n) if ev[k][3] in ("W", "U")]
    reads = [k for k in range(n) if ev[k][3] in ("R", "U")]
    mo = {k: Int(f"mo_{k}") for k in writes}
    rf = {k: Int(f"rf_{k}") for k in reads}
    locs = {}
    for k, e in enumerate(ev):
        locs.setdefault(e[2], []).append(k)
    for l, ks in locs.items():
        ws = [k for k in ks if k in mo]
        for k in ws:
            s.add(mo[k] >= 0, mo[k] < len(ws))
        s.add(Distinct([mo[k] for k in ws]))
        s.add(mo[[k for k in ws if ev[k][1] == 0][0]] == 0)
    for k in reads:
        ws = [j for j in locs[ev[k][2]] if j in mo and j != k]
        s.add(Or([rf[k] == j for j in ws]))
        if ev[k][3] == "U":
            for j in ws:
                s.add(Implies(rf[k] == j, mo[k] == mo[j] + 1))
    po = [[False] * n for _ in range(n)]
    for a in range(n):
        for b in range(n):
            if a == b:
                continue
            if ev[a][1] == 0 and ev[b][1] != 0:
                po[a][b] = True
            if ev[a][1] == ev[b][1] and ev[a][1] != 0 and a < b:
                po[a][b] = True
    rs = {(w, x): Bool(f"rs_{w}_{x}") for w in writes for x in writes}
    for w in writes:
        for x in writes:
            v = rs[(w, x)]
            if ev[w][2] != ev[x][2]:
                s.add(v == False)
            elif x == w:
                s.add(v == True)
            elif ev[x][3] != "U":
                s.add(v == False)
            else:
                # x is an RMW reading from a member of the release sequence headed by w
                s.add(v == Or([And(rf[x] == y, rs[(w, y)]) for y in locs[ev[x][2]] if y in mo and y != x]))

    def sw(w, r):
        if w not in mo or r not in rf or ev[w][2] != ev[r][2] or w == r:
            return BoolVal(False)
        if not (is_rel(ev[w][4]) and is_acq(ev[r][4])):
            return BoolVal(False)
        return Or([And(rf[r] == x, rs[(w, x)]) for x in locs[ev[r][2]] if x in mo and x != r])

    hb = [[(Or(BoolVal(po[a][b]), sw(a, b)) if a != b else BoolVal(False)) for b in range(n)] for a in range(n)]
    it, span = 0, 1
    while span < n:
        nh = [[Bool(f"hb{it}_{a}_{b}") for b in range(n)] for a in range(n)]
        for a in range(n):
            for b in range(n):
                s.add(nh[a][b] == Or(hb[a][b], Or([And(hb[a][c], hb[c][b]) for c in range(n)])))
        hb = nh
        it += 1
        span *= 2
    for a in range(n):
        s.add(Not(hb[a][a]))

    def mo_w(k):      # mo position of the write an event "is" (W/U) ...
        return mo[k]

    def mo_r(k):      # ... or reads from (R/U): expressed through rf
        return None

    for a in range(n):
        for b in range(n):
            if a == b or ev[a][2] != ev[b][2]:
                continue
            aw, bw = a in mo, b in mo
            ar, br = a in rf, b in rf
            if aw and bw:
                s.add(Implies(hb[a][b], mo[a] < mo[b]))                                   # CoWW
            if aw and br:
                for w in locs[ev[b][2]]:
                    if w in mo and w not in (a, b):
                        s.add(Implies(And(hb[a][b], rf[b] == w), mo[a] <= mo[w]))            # CoWR
            if ar and bw:
                for w in locs[ev[a][2]]:
                    if w in mo and w not in (a, b):
                        s.add(Implies(And(hb[a][b], rf[a] == w), mo[w] < mo[b]))             # CoRW
                s.add(Implies(hb[a][b], rf[a] != b))
            if ar and br:
                for w1 in locs[ev[a][2]]:
                    for w2 in locs[ev[a][2]]:
                        if w1 in mo and w2 in mo and w1 != w2 and w1 != a and w2 != b:
                            s.add(Implies(And(hb[a][b], rf[a] == w1, rf[b] == w2), mo[w1] <= mo[w2]))  # CoRR
    for k in reads:
        for j in locs[ev[k][2]]:
            if j in mo and j != k:
                s.add(Implies(rf[k] == j, Not(hb[k][j])))

    def pick(names, op, l):
        c = [nm for nm in names if f"_{op}_{l}" in nm]
        if not c:
            raise Inconclusive(f"expected event {op} on {l} not found (events: {names})")
        return idx[c[-1]]

    o_claim = pick(o_names, "fetch_add", "sac")
    o_pub = pick(o_names, "fetch_add", "count.idx")
    c_flip = pick(c_names, "fetch_add", "sac")
    c_cas = [idx[nm] for nm in c_names if "compare_exchange" in nm and "count.idx" in nm]
    if not c_cas:
        raise Inconclusive("collector's compare-exchange on the cold count not found")
    c_cas = c_cas[-1]
    if target == "bucket":
        o_upd = pick(o_names, "fetch_add", "bucket.idx")
        c_drain = pick(c_names, "swap", "bucket.idx")
    else:
        o_upd = [idx[nm] for nm in o_names if "compare_exchange" in nm and "sum.idx" in nm]
        if not o_upd:
            raise Inconclusive("observer's sum update not found")
        o_upd = o_upd[-1]
        c_drain = pick(c_names, "swap", "sum.idx")
    s.add(rf[c_flip] == o_claim)          # observer claimed its slot before the flip
    s.add(rf[c_cas] == o_pub)             # the wait loop ended because it saw the publication
    s.add(mo[c_drain] < mo[o_upd])        # ... and yet the drain precedes the observer's update
    t0 = time.time()
    r = s.check()
    dt = time.time() - t0
    wit = None
    if r == sat:
        m = s.model()
        wit = {ev[k][0]: ev[m[rf[k]].as_long()][0] for k in reads}
    return str(r), dt, wit, [dict(name=e[0], thread=e[1], loc=e[2], kind=e[3], ord=e[4]) for e in ev]


def main(argv):
    t_start = time.time()
    try:
        text, t_mir = dump_mir()
        evs, nfn = extract(text)
    except Inconclusive as e:
        print("E5 INCONCLUSIVE:", e)
        return 2, None
    results = []
    violated = []
    try:
        for who in ("observe", "flush"):
            for target in ("bucket", "sum"):
                r, dt, wit, events = build_and_solve(evs[who], evs["proto"], target)
                results.append(dict(query=f"{who} x proto: stale {target} drain", result=r, seconds=round(dt, 3), events=len(events), witness=wit))
                if r == "sat":
                    violated.append(results[-1])
                elif r != "unsat":
                    raise Inconclusive(f"solver answered {r}")
                # non-vacuity twin: weaken the observer's publication
                r2, dt2, wit2, _ = build_and_solve(evs[who], evs["proto"], target,
                                                   weaken=lambda role, e: role == "o" and e["cls"] == "count")
                results.append(dict(query=f"TWIN (publication weakened to Relaxed) {who} x proto: stale {target} drain", result=r2, seconds=round(dt2, 3)))
                if r2 != "sat":
                    raise Inconclusive("non-vacuity twin is not sat: the encoding cannot see the ordering")
                # second twin: the collector's wait (compare-exchange on the cold count) weakened to Relaxed
                r3, dt3, wit3, _ = build_and_solve(evs[who], evs["proto"], target,
                                                   weaken=lambda role, e: role == "c" and e["cls"] == "count" and e["kind"] == "cas")
                results.append(dict(query=f"TWIN (collector's wait weakened to Relaxed) {who} x proto: stale {target} drain", result=r3, seconds=round(dt3, 3)))
                if r3 != "sat":
                    raise Inconclusive("non-vacuity twin (acquire side) is not sat: the encoding cannot see the ordering")
    except Inconclusive as e:
        print("E5 INCONCLUSIVE:", e)
        return 2, dict(events=evs, results=results)
    out = dict(events=evs, results=results, functions=nfn, mir_seconds=round(t_mir, 1), wall=round(time.time() - t_start, 1))
    for r in results:
        print(f"E5 {r['query']}: {r['result']} ({r['seconds']}s)")
    if violated:
        return 1, out
    return 0, out


if __name__ == "__main__":
    code, out = main(sys.argv[1:])
    if out and "--json" in sys.argv:
        print(json.dumps(out, indent=1, default=str))
    if out and "--json-file" in sys.argv:
        json.dump(out, open(sys.argv[sys.argv.index("--json-file") + 1], "w"), indent=1, default=str)
    sys.exit(code)
