#!/bin/bash
# queue.sh <tier> <id>...: run checks one after another, logs in /tmp/q_<id>.log
TIER=$1; shift
cd /verif
for id in "$@"; do timeout 7200 ./check $id $TIER > /tmp/q_$id.log 2>&1; echo "$id exit $?" >> /tmp/queue_done.log; done
