#!/bin/bash
# try_seed.sh <patch> <name> <property> <tier> [extra check args]
# Runs a check against a scratch worktree of /repo with a seeded change applied (never touches /repo).
P=$1; NAME=$2; ID=$3; TIER=$4; shift 4
WT=/tmp/seedtest_$NAME
git -C /repo worktree remove --force $WT 2>/dev/null
git -C /repo worktree add --detach $WT HEAD >/dev/null 2>&1 || exit 9
if [ "$P" != "-" ]; then git -C $WT apply $P || { git -C /repo worktree remove --force $WT; exit 9; }; fi
cd /verif
VERIF_REPO=$WT VERIF_TARGET_SUFFIX=_$NAME ./check $ID $TIER "$@"; rc=$?
git -C /repo worktree remove --force $WT
rm -rf /verif/.build/kani/${ID}_$NAME /verif/.build/replay_target_$NAME /verif/.build/mir_target_$NAME
echo "try_seed: $NAME on $ID $TIER -> exit $rc"
