#!/bin/bash
# confirm_seed.sh <out-dir with patch.diff demo.rs meta.json> <seed-name>
# Confirms in a scratch worktree: with the patch the existing suite passes and the demo fails;
# without it the demo passes. Then stores the seed under /verif/seeded/<seed-name>/.
set -u
OUT=$1; NAME=$2
WT=/tmp/confirm_$NAME
export CARGO_NET_OFFLINE=true
git -C /repo worktree remove --force $WT 2>/dev/null
git -C /repo worktree add --detach $WT HEAD >/dev/null 2>&1 || exit 3
cd $WT
res="{}"
git apply $OUT/patch.diff || { echo "PATCH DOES NOT APPLY"; git -C /repo worktree remove --force $WT; exit 3; }
suite=$(cargo test --workspace --offline --no-fail-fast 2>&1 | grep -E "^test result" | awk '{p+=$4; f+=$6} END {print p" passed "f" failed"}')
mkdir -p tests; cp $OUT/demo.rs tests/demo_seed.rs
cargo test --offline --test demo_seed > /tmp/confirm_$NAME.with.log 2>&1; with=$?
git checkout -- src proto 2>/dev/null
cargo test --offline --test demo_seed > /tmp/confirm_$NAME.without.log 2>&1; without=$?
echo "seed=$NAME suite_with_patch='$suite' demo_with_patch_exit=$with demo_without_patch_exit=$without"
cd /; git -C /repo worktree remove --force $WT
if [ "$with" != "0" ] && [ "$without" = "0" ]; then
  mkdir -p /verif/seeded/$NAME; cp $OUT/patch.diff $OUT/demo.rs /verif/seeded/$NAME/
  python3 - "$OUT" "$NAME" "$suite" "$with" "$without" <<'PY'
import json,sys
out,name,suite,w,wo=sys.argv[1:6]
try: m=json.load(open(out+'/meta.json'))
except Exception: m={}
m['confirmed_by_framework_author']=dict(existing_suite_with_patch=suite, demo_exit_with_patch=int(w), demo_exit_without_patch=int(wo),
   how="tools/confirm_seed.sh: scratch worktree of /repo HEAD, git apply patch.diff, cargo test --workspace --offline, demo as tests/demo_seed.rs with and without the patch")
json.dump(m, open('/verif/seeded/'+name+'/meta.json','w'), indent=1)
PY
  echo CONFIRMED
else
  echo NOT-CONFIRMED
fi
