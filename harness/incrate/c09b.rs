//! C09 (registry part) — the registry-level prefix and common labels cannot make an exposed
//! sample's metric name or label names ill-formed or repeated. Hosted in `crate::registry`.
use crate::verif_incrate::common::*;
use super::*;
use crate::desc::Desc;

/// pool of 2-byte candidates: aa bb 9x a- _: (names of concrete length, symbolic content)
fn pool_bytes(k: u8) -> [u8; 2] {
    match k {
        0 => *b"aa",
        1 => *b"bb",
        2 => *b"9x",
        3 => *b"a-",
        _ => *b"_:",
    }
}
fn pool_string(k: u8) -> String {
    let b = pool_bytes(k);
    unsafe { String::from_utf8_unchecked(vec![b[0], b[1]]) }
}

/// `Registry::new_custom` accepts a prefix exactly when it is a valid start of a metric name and
/// common labels exactly when their names are valid label names.
#[cfg_attr(kani, kani::proof, kani::unwind(6),
    kani::stub(std::fmt::format, fmt_stub),
    kani::stub(parking_lot::RawRwLock::lock_exclusive_slow, pl_lock_exclusive_slow),
    kani::stub(parking_lot::RawRwLock::lock_shared_slow, pl_lock_shared_slow),
    kani::stub(parking_lot::RawRwLock::unlock_exclusive_slow, pl_unlock_exclusive_slow),
    kani::stub(parking_lot::RawRwLock::unlock_shared_slow, pl_unlock_shared_slow))]
pub fn c09_registry_prefix_and_label_names_validated() {
    let (kp, kl) = (any_u8_below(5), any_u8_below(5));
    let mut labels = HashMap::new();
    labels.insert(pool_string(kl), String::from("v"));
    let r = Registry::new_custom(Some(pool_string(kp)), Some(labels));
    // metric name regex [a-zA-Z_:][a-zA-Z0-9_:]* : aa bb _: ; label name regex: aa bb
    let prefix_ok = kp == 0 || kp == 1 || kp == 4;
    let label_ok = kl == 0 || kl == 1;
    vcover!(prefix_ok && label_ok, "c09.reg: accepted");
    vcover!(kp == 2, "c09.reg: prefix starting with a digit");
    assert!(r.is_ok() == (prefix_ok && label_ok), "C09 registry prefix and common label names are validated, so every gathered name is well-formed");
    std::mem::forget(r);
    vcover!(true, "end of harness reached");
}

struct One(Desc);
impl Collector for One {
    fn desc(&self) -> Vec<&Desc> { vec![&self.0] }
    fn collect(&self) -> Vec<proto::MetricFamily> { Vec::new() }
}
/// A collector whose own label names (one const, one variable; symbolic from the pool) repeat a
/// common label of the registry is refused, so gathered samples have pairwise distinct labels.
#[cfg_attr(kani, kani::proof, kani::unwind(6), kani::stub(std::fmt::format, fmt_stub))]
pub fn c09_registry_common_label_clash_refused() {
    let (kc, kv) = (any_u8_below(2), any_u8_below(2));
    let mut core = RegistryCore::default();
    let mut labels = HashMap::new();
    labels.insert(String::from("aa"), String::from("v"));
    core.labels = Some(labels);
    let mut cl = proto::LabelPair::default();
    cl.set_name(if kc == 0 { String::from("aa") } else { String::from("cc") });
    cl.set_value(String::from("1"));
    let desc = Desc { fq_name: String::from("m"), help: String::from("h"), const_label_pairs: vec![cl],
        variable_labels: vec![if kv == 0 { String::from("aa") } else { String::from("dd") }], id: 1, dim_hash: 1 };
    let r = core.register(Box::new(One(desc)));
    let clash = kc == 0 || kv == 0;
    assert!(r.is_ok() == !clash, "C09 a metric whose label repeats a registry common label is refused (labels stay pairwise distinct)");
    std::mem::forget(r);
    std::mem::forget(core);
    vcover!(true, "end of harness reached");
}

pub fn dispatch(name: &str) -> Option<fn()> {
    Some(match name {
        "c09_registry_prefix_and_label_names_validated" => c09_registry_prefix_and_label_names_validated,
        "c09_registry_common_label_clash_refused" => c09_registry_common_label_clash_refused,
        _ => return None,
    })
}
