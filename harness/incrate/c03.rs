//! C03 (sequential part) — histograms conserve observations across any sequence of collects
//! and flushes: a symbolic history of operations on one histogram (real std atomics, no
//! interleaving) against a reference multiset. The concurrent part is in c02.rs.
use crate::verif_incrate::common::*;
use super::*;

fn hist1() -> Histogram {
    let desc = crate::desc::Desc {
        fq_name: String::from("a"), help: String::from("h"), const_label_pairs: Vec::new(), variable_labels: Vec::new(), id: 0, dim_hash: 0,
    };
    Histogram {
        core: Arc::new(HistogramCore {
            desc, label_pairs: Vec::new(), collect_lock: Mutex::new(()), shard_and_count: ShardAndCount::new(),
            shards: [Shard::new(1), Shard::new(1)], upper_bounds: vec![1.0],
        }),
    }
}

/// reference state: shared totals and the pending local batch
struct Model { sc: u64, ss: f64, sb: u64, lc: u64, ls: f64, lb: u64 }
/// one operation of a history: 0 observe(v), 1 local observe(v), 2 local flush, 3 collect,
/// 4 get_sample_count, 5 get_sample_sum
fn apply(h: &Histogram, l: &LocalHistogram, m: &mut Model, op: u8, v: f64) {
    if op == 0 { h.observe(v); m.sc += 1; m.ss += v; if v <= 1.0 { m.sb += 1; } }
    else if op == 1 { l.observe(v); m.lc += 1; m.ls += v; if v <= 1.0 { m.lb += 1; } }
    else if op == 2 { l.flush(); m.sc += m.lc; m.ss += m.ls; m.sb += m.lb; m.lc = 0; m.ls = 0.0; m.lb = 0; }
    else if op == 3 {
        let p = h.core.proto();
        assert!(p.get_sample_count() == m.sc, "C03 snapshot count = all observations so far (none lost, none twice)");
        assert!(p.get_sample_sum() == m.ss, "C03 snapshot sum = all observations so far");
        assert!(p.get_bucket()[0].cumulative_count() == m.sb, "C03 snapshot bucket = all observations so far");
        std::mem::forget(p);
    }
    else if op == 4 { assert!(h.get_sample_count() == m.sc, "C03 get_sample_count agrees with the observations"); }
    else { assert!(h.get_sample_sum() == m.ss, "C03 get_sample_sum agrees with the observations"); }
}
/// a concrete operation sequence (unrolled by the macro: no harness loop, so the unwind bound stays
/// small for the retry loops inside the library) with symbolic observation values in {0,1,2,3}
macro_rules! history {
    ($($op:expr),*) => {{
        let h = hist1();
        let l = h.local();
        let mut m = Model { sc: 0, ss: 0.0, sb: 0, lc: 0, ls: 0.0, lb: 0 };
        $( apply(&h, &l, &mut m, $op, any_u8_below(4) as f64); )*
        std::mem::forget(l);
        std::mem::forget(h);
    }};
}

/// Direct observations across three collections (both shards reused): obs, collect, obs, obs,
/// collect, count, sum, collect.
#[cfg_attr(kani, kani::proof, kani::unwind(4))]
pub fn c03_sequence_direct_three_collects() {
    history!(0, 3, 0, 0, 3, 4, 5, 3);
    vcover!(true, "end of harness reached");
}
/// Batch: local obs x2, collect (batch not visible), flush, collect (batch visible as a whole).
#[cfg_attr(kani, kani::proof, kani::unwind(4))]
pub fn c03_sequence_batch_visible_after_flush() {
    history!(1, 1, 3, 2, 3);
    vcover!(true, "end of harness reached");
}
/// Mixed: obs, local obs, collect, flush, collect, collect (third collection reuses the first shard).
#[cfg_attr(kani, kani::proof, kani::unwind(4))]
pub fn c03_sequence_mixed_three_collects() {
    history!(0, 1, 3, 2, 3, 3);
    vcover!(true, "end of harness reached");
}
/// Empty flush and getters between collects: flush, collect, obs, sum, collect, local obs, count,
/// collect, flush, collect.
#[cfg_attr(kani, kani::proof, kani::unwind(4))]
pub fn c03_sequence_empty_flush_and_getters() {
    history!(2, 3, 0, 5, 3, 1, 4, 3, 2, 3);
    vcover!(true, "end of harness reached");
}

/// A quiescent collect never waits: with no observation in flight its first compare-exchange on
/// the cold count succeeds (the spin loop's unwinding assertion holds with bound 2), for an
/// arbitrary reachable shard state (k observations, j earlier collects).
#[cfg_attr(kani, kani::proof, kani::unwind(4))]
pub fn c03_quiescent_collect_returns_immediately() {
    let h = hist1();
    let k = any_u8_below(3);
    if k >= 1 { h.observe(1.0); }
    if k >= 2 { h.observe(2.0); }
    let j = any_u8_below(3);
    if j >= 1 { let p = h.core.proto(); std::mem::forget(p); }
    if j >= 2 { let p = h.core.proto(); std::mem::forget(p); }
    let p = h.core.proto();
    assert!(p.get_sample_count() == k as u64, "C03 collect returns with all completed observations");
    std::mem::forget(p);
    std::mem::forget(h);
    vcover!(true, "end of harness reached");
}

pub fn dispatch(name: &str) -> Option<fn()> {
    Some(match name {
        "c03_sequence_direct_three_collects" => c03_sequence_direct_three_collects,
        "c03_sequence_batch_visible_after_flush" => c03_sequence_batch_visible_after_flush,
        "c03_sequence_mixed_three_collects" => c03_sequence_mixed_three_collects,
        "c03_sequence_empty_flush_and_getters" => c03_sequence_empty_flush_and_getters,
        "c03_quiescent_collect_returns_immediately" => c03_quiescent_collect_returns_immediately,
        _ => return None,
    })
}
