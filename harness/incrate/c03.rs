//! C03 (sequential part) — histograms conserve observations across any sequence of collects
//! and flushes: a symbolic history of operations on one histogram (real std atomics, no
//! interleaving) against a reference multiset. The concurrent part is in c02.rs.
use crate::verif_incrate::common::*;
use super::*;

fn hist1() -> Histogram {
    let desc = crate::desc::Desc {
        fq_name: String::from("a"), help: String::from("h"), const_label_pairs: Vec::new(), variable_labels: Vec::new(), id: 0, dim_hash: 0,
    };
    Histogram {
        core: Arc::new(HistogramCore {
            desc, label_pairs: Vec::new(), collect_lock: Mutex::new(()), shard_and_count: ShardAndCount::new(),
            shards: [Shard::new(1), Shard::new(1)], upper_bounds: vec![1.0],
        }),
    }
}

fn history(n: usize) {
    let h = hist1();
    let l = h.local();
    // reference: shared totals and the pending local batch
    let (mut sc, mut ss, mut sb) = (0u64, 0.0f64, 0u64);
    let (mut lc, mut ls, mut lb) = (0u64, 0.0f64, 0u64);
    let mut collects = 0u8;
    let mut step = 0;
    while step < n {
        let op = any_u8_below(6);
        let x = any_u8_below(4);
        let v = x as f64;
        match op {
            0 => { h.observe(v); sc += 1; ss += v; if v <= 1.0 { sb += 1; } }
            1 => { l.observe(v); lc += 1; ls += v; if v <= 1.0 { lb += 1; } }
            2 => { l.flush(); sc += lc; ss += ls; sb += lb; lc = 0; ls = 0.0; lb = 0; }
            3 => {
                let p = h.core.proto();
                collects += 1;
                assert!(p.get_sample_count() == sc, "C03 snapshot count = all observations so far (none lost, none twice)");
                assert!(p.get_sample_sum() == ss, "C03 snapshot sum = all observations so far");
                assert!(p.get_bucket()[0].cumulative_count() == sb, "C03 snapshot bucket = all observations so far");
                std::mem::forget(p);
            }
            4 => { assert!(h.get_sample_count() == sc, "C03 get_sample_count agrees with the observations"); }
            _ => { assert!(h.get_sample_sum() == ss, "C03 get_sample_sum agrees with the observations"); }
        }
        step += 1;
    }
    let p = h.core.proto();
    assert!(p.get_sample_count() == sc && p.get_sample_sum() == ss && p.get_bucket()[0].cumulative_count() == sb,
        "C03 final snapshot describes exactly all observations");
    assert!(h.get_sample_count() == sc && h.get_sample_sum() == ss, "C03 get_sample_count / get_sample_sum agree with the final snapshot");
    vcover!(collects >= 3 && sc >= 1, "c03.seq: three or more collections with data");
    vcover!(collects >= 2 && sb >= 1 && lc == 0 && sc > sb, "c03.seq: data in and above the bucket across collections");
    std::mem::forget(p);
    std::mem::forget(l);
    std::mem::forget(h);
}

/// Symbolic history of 4 operations (+ final collect) out of observe / local observe / local
/// flush / collect / get_sample_count / get_sample_sum, values in {0,1,2,3}, 1 bucket.
#[cfg_attr(kani, kani::proof, kani::unwind(6))]
pub fn c03_sequential_history_4() {
    history(4);
}
/// Symbolic history of 6 operations (+ final collect).
#[cfg_attr(kani, kani::proof, kani::unwind(8))]
pub fn c03_sequential_history_6() {
    history(6);
}

/// A quiescent collect never waits: with no observation in flight its first compare-exchange on
/// the cold count succeeds (the spin loop's unwinding assertion holds with bound 2), for an
/// arbitrary reachable shard state (k observations, j earlier collects).
#[cfg_attr(kani, kani::proof, kani::unwind(4))]
pub fn c03_quiescent_collect_returns_immediately() {
    let h = hist1();
    let k = any_u8_below(3);
    if k >= 1 { h.observe(1.0); }
    if k >= 2 { h.observe(2.0); }
    let j = any_u8_below(3);
    if j >= 1 { let p = h.core.proto(); std::mem::forget(p); }
    if j >= 2 { let p = h.core.proto(); std::mem::forget(p); }
    let p = h.core.proto();
    assert!(p.get_sample_count() == k as u64, "C03 collect returns with all completed observations");
    std::mem::forget(p);
    std::mem::forget(h);
}

pub fn dispatch(name: &str) -> Option<fn()> {
    Some(match name {
        "c03_sequential_history_4" => c03_sequential_history_4,
        "c03_sequential_history_6" => c03_sequential_history_6,
        "c03_quiescent_collect_returns_immediately" => c03_quiescent_collect_returns_immediately,
        _ => return None,
    })
}
