//! C11 — gauge operations are atomic (E2: Lal–Reps, K rounds; linearizability oracle as a
//! finite disjunction over all interleavings of the two threads' operation sequences).
use crate::verif_incrate::common::*;
use crate::verif_sync as vs;
use crate::*;

#[derive(Clone, Copy)]
struct Op {
    kind: u8, // 0 set(x) 1 inc 2 dec 3 add(x) 4 sub(x) 5 get
    x: i64,
    res: i64, // result of get
    rb: usize,
    re: usize,
    th: usize,
}
fn before(ra: usize, ta: usize, rb: usize, tb: usize) -> bool {
    ra < rb || (ra == rb && ta < tb)
}
/// sequential specification on i64 (the float harnesses use small integers, exact in f64)
fn step(state: &mut i64, op: &Op) -> bool {
    match op.kind {
        0 => { *state = op.x; true }
        1 => { *state = state.wrapping_add(1); true }
        2 => { *state = state.wrapping_sub(1); true }
        3 => { *state = state.wrapping_add(op.x); true }
        4 => { *state = state.wrapping_sub(op.x); true }
        _ => op.res == *state,
    }
}
/// does the order `ord` (indices into ops) explain all results and the final value, and respect
/// real time ((round, thread) order of operation end / begin)?
fn explains(ops: &[Op; 4], ord: [usize; 4], fin: i64) -> bool {
    let mut st = 0i64;
    let mut ok = true;
    let mut i = 0;
    while i < 4 {
        ok = ok && step(&mut st, &ops[ord[i]]);
        let mut j = i + 1;
        while j < 4 {
            // ord[j] is linearized after ord[i]: it must not have completed before ord[i] began
            let (a, b) = (&ops[ord[i]], &ops[ord[j]]);
            if before(b.re, b.th, a.rb, a.th) {
                ok = false;
            }
            j += 1;
        }
        i += 1;
    }
    ok && st == fin
}
fn linearizable(ops: &[Op; 4], fin: i64) -> bool {
    // ops[0], ops[1] belong to thread 1 (program order), ops[2], ops[3] to thread 2
    explains(ops, [0, 1, 2, 3], fin)
        || explains(ops, [0, 2, 1, 3], fin)
        || explains(ops, [0, 2, 3, 1], fin)
        || explains(ops, [2, 0, 1, 3], fin)
        || explains(ops, [2, 0, 3, 1], fin)
        || explains(ops, [2, 3, 0, 1], fin)
}

fn pick_op(th: usize) -> Op {
    let kind = any_u8_below(6);
    fixed_op(kind, th)
}
/// operation of a fixed kind with a symbolic operand in [-4, 4]
fn fixed_op(kind: u8, th: usize) -> Op {
    let x = any_usize_in(0, 9) as i64 - 4;
    Op { kind, x, res: 0, rb: 0, re: 0, th }
}

fn run_int(g: &IntGauge, op: &mut Op) {
    vs::sched_point();
    op.rb = vs::round();
    match op.kind {
        0 => g.set(op.x),
        1 => g.inc(),
        2 => g.dec(),
        3 => g.add(op.x),
        4 => g.sub(op.x),
        _ => op.res = g.get(),
    }
    op.re = vs::round();
}
fn run_float(g: &Gauge, op: &mut Op) {
    vs::sched_point();
    op.rb = vs::round();
    match op.kind {
        0 => g.set(op.x as f64),
        1 => g.inc(),
        2 => g.dec(),
        3 => g.add(op.x as f64),
        4 => g.sub(op.x as f64),
        _ => {
            let v = g.get();
            // small integers are exact in f64; anything else is reported as a mismatch
            op.res = if v >= -64.0 && v <= 64.0 && v == (v as i64) as f64 { v as i64 } else { i64::MIN };
        }
    }
    op.re = vs::round();
}

/// IntGauge: two threads, two operations each, every operation chosen symbolically.
#[cfg_attr(kani, kani::proof, kani::unwind(6),
    kani::stub(std::fmt::format, fmt_stub),
    kani::stub(std::hash::RandomState::new, fixed_random_state),
    kani::stub(crate::desc::Desc::new, cheap_desc))]
pub fn c11_int_2x2_symbolic_ops() {
    let g = IntGauge::new("a", "h").unwrap();
    vs::begin_register();
    let _ = g.get();
    let mut ops = [pick_op(1), pick_op(1), pick_op(2), pick_op(2)];
    vs::begin_threads();
    vs::start_thread();
    run_int(&g, &mut ops[0]);
    run_int(&g, &mut ops[1]);
    vs::start_thread();
    run_int(&g, &mut ops[2]);
    run_int(&g, &mut ops[3]);
    vs::assume_consistent();
    let fin = g.get();
    assert!(linearizable(&ops, fin), "C11 IntGauge history is linearizable");
    vcover!(ops[0].kind == 3 && ops[2].kind == 0 && ops[1].kind == 5 && ops[1].res == ops[2].x && ops[0].x != 0 && ops[2].x != 0,
        "c11.int: T1 add, T2 set in between, T1 get sees the set value");
    vcover!(ops[0].kind == 5 && ops[0].res != 0, "c11.int: first op of T1 observes T2's effect");
    std::mem::forget(g);
    vcover!(true, "end of harness reached");
}

/// Gauge (f64, compare-exchange loop): T1 add(x); get — T2 set(y); sub(z).
#[cfg_attr(kani, kani::proof, kani::unwind(6),
    kani::stub(std::fmt::format, fmt_stub),
    kani::stub(std::hash::RandomState::new, fixed_random_state),
    kani::stub(crate::desc::Desc::new, cheap_desc))]
pub fn c11_float_add_get_vs_set_sub() {
    let g = Gauge::new("a", "h").unwrap();
    vs::begin_register();
    let _ = g.get();
    let mut ops = [fixed_op(3, 1), fixed_op(5, 1), fixed_op(0, 2), fixed_op(4, 2)];
    vs::begin_threads();
    vs::start_thread();
    run_float(&g, &mut ops[0]);
    run_float(&g, &mut ops[1]);
    vs::start_thread();
    run_float(&g, &mut ops[2]);
    run_float(&g, &mut ops[3]);
    vs::assume_consistent();
    let v = g.get();
    let fin = if v >= -64.0 && v <= 64.0 && v == (v as i64) as f64 { v as i64 } else { i64::MIN };
    assert!(linearizable(&ops, fin), "C11 Gauge history is linearizable");
    vcover!(ops[1].res == ops[2].x && ops[0].x != 0 && ops[2].x != 0 && ops[3].x != 0, "c11.float: get between set and sub");
    std::mem::forget(g);
    vcover!(true, "end of harness reached");
}

/// Gauge (f64): T1 inc; dec — T2 add(x); sub(x): concurrent updates are never lost, final 0.
#[cfg_attr(kani, kani::proof, kani::unwind(6),
    kani::stub(std::fmt::format, fmt_stub),
    kani::stub(std::hash::RandomState::new, fixed_random_state),
    kani::stub(crate::desc::Desc::new, cheap_desc))]
pub fn c11_float_inc_dec_vs_add_sub() {
    let g = Gauge::new("a", "h").unwrap();
    vs::begin_register();
    let _ = g.get();
    let mut ops = [fixed_op(1, 1), fixed_op(2, 1), fixed_op(3, 2), fixed_op(4, 2)];
    ops[3].x = ops[2].x;
    vs::begin_threads();
    vs::start_thread();
    run_float(&g, &mut ops[0]);
    run_float(&g, &mut ops[1]);
    vs::start_thread();
    run_float(&g, &mut ops[2]);
    run_float(&g, &mut ops[3]);
    let fails = vs::cas_fails(1) + vs::cas_fails(2);
    vs::assume_consistent();
    let v = g.get();
    assert!(v == 0.0, "C11 sub(x) undoes add(x), dec undoes inc, under every schedule");
    vcover!(fails > 0, "c11.float: a compare-exchange was retried");
    std::mem::forget(g);
    vcover!(true, "end of harness reached");
}

/// Sequential law for every f64: sub(x) is add(-x) bit for bit, from any start value.
#[cfg_attr(kani, kani::proof, kani::unwind(6),
    kani::stub(std::fmt::format, fmt_stub),
    kani::stub(std::hash::RandomState::new, fixed_random_state),
    kani::stub(crate::desc::Desc::new, cheap_desc))]
pub fn c11_float_sub_is_add_neg() {
    let g1 = Gauge::new("a", "h").unwrap();
    let g2 = Gauge::new("a", "h").unwrap();
    let (s, x) = (any_f64(), any_f64());
    g1.set(s);
    g2.set(s);
    assert!(g1.get().to_bits() == s.to_bits(), "C11 set is not torn / get returns what was set");
    g1.sub(x);
    g2.add(-x);
    assert!(f64_same(g1.get(), g2.get()), "C11 sub(x) == add(-x)");
    assert!(f64_same(g1.get(), s - x), "C11 sub(x) subtracts x");
    std::mem::forget(g1);
    std::mem::forget(g2);
    vcover!(true, "end of harness reached");
}

pub fn dispatch(name: &str) -> Option<fn()> {
    Some(match name {
        "c11_int_2x2_symbolic_ops" => c11_int_2x2_symbolic_ops,
        "c11_float_add_get_vs_set_sub" => c11_float_add_get_vs_set_sub,
        "c11_float_inc_dec_vs_add_sub" => c11_float_inc_dec_vs_add_sub,
        "c11_float_sub_is_add_neg" => c11_float_sub_is_add_neg,
        _ => return None,
    })
}
