//! C02 — every histogram snapshot is one consistent cut of the observations, and
//! C03 — histograms conserve observations across collects and flushes (concurrent part).
//! E2: Lal–Reps round-robin sequentialisation with K rounds over the real
//! `HistogramCore::observe` / `proto` / `LocalHistogramCore::flush` code. Hosted in
//! `crate::histogram`; the core is constructed directly (bucket vector length concrete).
use crate::verif_incrate::common::*;
use crate::verif_sync as vs;
use super::*;

fn hist(bounds: Vec<f64>) -> Histogram {
    let n = bounds.len();
    let desc = crate::desc::Desc {
        fq_name: String::from("a"), help: String::from("h"), const_label_pairs: Vec::new(), variable_labels: Vec::new(), id: 0, dim_hash: 0,
    };
    Histogram {
        core: Arc::new(HistogramCore {
            desc, label_pairs: Vec::new(), collect_lock: Mutex::new(()), shard_and_count: ShardAndCount::new(),
            shards: [Shard::new(n), Shard::new(n)], upper_bounds: bounds,
        }),
    }
}
fn before(ra: usize, ta: usize, rb: usize, tb: usize) -> bool {
    ra < rb || (ra == rb && ta < tb)
}
fn small() -> f64 {
    any_usize_in(0, 4) as f64
}
#[derive(Clone, Copy)]
struct Snap {
    cnt: u64,
    sum: f64,
    c0: u64,
    c1: u64,
    rb: usize,
    re: usize,
}
/// register every shared cell of the histogram (one sequential collect touches all of them)
fn register(h: &Histogram, cells: usize) {
    vs::begin_register();
    let w = h.core.proto();
    std::mem::forget(w);
    assert!(vs::ncells() == cells);
}
fn collect(h: &Histogram) -> Snap {
    vs::sched_point();
    let rb = vs::round();
    let p = h.core.proto();
    let re = vs::round();
    let bs = p.get_bucket();
    let s = Snap {
        cnt: p.get_sample_count(),
        sum: p.get_sample_sum(),
        c0: bs[0].cumulative_count(),
        c1: if bs.len() > 1 { bs[1].cumulative_count() } else { 0 },
        rb,
        re,
    };
    std::mem::forget(p);
    s
}
/// does the snapshot describe exactly the observations `vals[i]` with `inc[i]`?
fn describes(s: &Snap, vals: &[f64], inc: &[bool], b0: f64, b1: f64) -> bool {
    let (mut cnt, mut sum, mut c0, mut c1) = (0u64, 0.0f64, 0u64, 0u64);
    let mut i = 0;
    while i < vals.len() {
        if inc[i] {
            cnt += 1;
            sum += vals[i];
            if vals[i] <= b0 { c0 += 1; }
            if vals[i] <= b1 { c1 += 1; }
        }
        i += 1;
    }
    s.cnt == cnt && s.sum == sum && s.c0 == c0 && (b1.is_nan() || s.c1 == c1)
}

/// S1: T1 observe(a) ‖ T2 collect. 1 bucket.
#[cfg_attr(kani, kani::proof, kani::unwind(6))]
pub fn c02_s1_observe_vs_collect() {
    let h = hist(vec![1.0]);
    register(&h, 8);
    let a = small();
    vs::begin_threads();
    vs::start_thread();
    vs::sched_point();
    let t1_b = vs::round();
    h.core.observe(a);
    let t1_e = vs::round();
    vs::start_thread();
    let s = collect(&h);
    let fails = vs::cas_fails(2);
    vs::assume_consistent();
    let empty = describes(&s, &[a], &[false], 1.0, f64::NAN);
    let full = describes(&s, &[a], &[true], 1.0, f64::NAN);
    assert!(empty || full, "C02 snapshot describes one set of observations (count, sum and buckets agree)");
    if before(t1_e, 1, s.rb, 2) { assert!(full, "C02 snapshot contains every observation completed before the collection started"); }
    if before(s.re, 2, t1_b, 1) { assert!(empty, "C02 snapshot excludes every observation started after the collection returned"); }
    assert!(h.get_sample_count() == 1, "C03 nothing is lost: the total count includes the observation");
    vcover!(empty && !before(s.re, 2, t1_b, 1), "c02.s1: collector missed the in-flight observation");
    vcover!(full && !before(t1_e, 1, s.rb, 2), "c02.s1: collector included an overlapping observation");
    vcover!(fails > 0, "c02.s1: collector had to wait for the in-flight observation");
    std::mem::forget(h);
    vcover!(true, "end of harness reached");
}

/// S1 (quick form): T1 observe(1.0) ‖ T2 collect, 1 bucket with bound 1.0: the observed value is
/// fixed (on the bucket bound), the schedule is symbolic.
#[cfg_attr(kani, kani::proof, kani::unwind(6))]
pub fn c02_s1_fixed_value_observe_vs_collect() {
    let h = hist(vec![1.0]);
    register(&h, 8);
    let a = 1.0;
    vs::begin_threads();
    vs::start_thread();
    vs::sched_point();
    let t1_b = vs::round();
    h.core.observe(a);
    let t1_e = vs::round();
    vs::start_thread();
    let s = collect(&h);
    let fails = vs::cas_fails(2);
    vs::assume_consistent();
    let empty = describes(&s, &[a], &[false], 1.0, f64::NAN);
    let full = describes(&s, &[a], &[true], 1.0, f64::NAN);
    assert!(empty || full, "C02 snapshot describes one set of observations (count, sum and buckets agree)");
    if before(t1_e, 1, s.rb, 2) { assert!(full, "C02 snapshot contains every observation completed before the collection started"); }
    if before(s.re, 2, t1_b, 1) { assert!(empty, "C02 snapshot excludes every observation started after the collection returned"); }
    assert!(h.get_sample_count() == 1, "C03 nothing is lost: the total count includes the observation");
    vcover!(empty && !before(s.re, 2, t1_b, 1), "c02.s1: collector missed the in-flight observation");
    vcover!(full && !before(t1_e, 1, s.rb, 2), "c02.s1: collector included an overlapping observation");
    vcover!(fails > 0, "c02.s1: collector had to wait for the in-flight observation");
    std::mem::forget(h);
    vcover!(true, "end of harness reached");
}

/// S2: T1 observe(a); observe(b) ‖ T2 collect: never the later observation without the earlier.
#[cfg_attr(kani, kani::proof, kani::unwind(6))]
pub fn c02_s2_two_observes_prefix_closed() {
    let h = hist(vec![1.0]);
    register(&h, 8);
    let (a, b) = (small(), small());
    vs::begin_threads();
    vs::start_thread();
    h.core.observe(a);
    let t1a_e = vs::round();
    vs::sched_point();
    let t1b_b = vs::round();
    h.core.observe(b);
    vs::start_thread();
    let s = collect(&h);
    vs::assume_consistent();
    let none = describes(&s, &[a, b], &[false, false], 1.0, f64::NAN);
    let first = describes(&s, &[a, b], &[true, false], 1.0, f64::NAN);
    let both = describes(&s, &[a, b], &[true, true], 1.0, f64::NAN);
    assert!(none || first || both, "C02 snapshot is a prefix-closed set of the thread's observations");
    if before(t1a_e, 1, s.rb, 2) { assert!(first || both, "C02 snapshot contains every observation completed before the collection started"); }
    if before(s.re, 2, t1b_b, 1) { assert!(none || first, "C02 snapshot excludes every observation started after the collection returned"); }
    vcover!(first && a != b && a != 0.0 && b != 0.0, "c02.s2: snapshot between the two observations");
    std::mem::forget(h);
    vcover!(true, "end of harness reached");
}

/// S3: T1 observe(a) ‖ T2 observe(b) ‖ T3 collect. 2 buckets.
#[cfg_attr(kani, kani::proof, kani::unwind(6))]
pub fn c02_s3_two_observers_vs_collect() {
    let h = hist(vec![1.0, 2.0]);
    register(&h, 10);
    let (a, b) = (small(), small());
    vs::begin_threads();
    vs::start_thread();
    h.core.observe(a);
    let t1_e = vs::round();
    vs::start_thread();
    h.core.observe(b);
    let t2_e = vs::round();
    vs::start_thread();
    let s = collect(&h);
    vs::assume_consistent();
    let v = [a, b];
    let ok = describes(&s, &v, &[false, false], 1.0, 2.0) || describes(&s, &v, &[true, false], 1.0, 2.0)
        || describes(&s, &v, &[false, true], 1.0, 2.0) || describes(&s, &v, &[true, true], 1.0, 2.0);
    assert!(ok, "C02 snapshot describes one set of observations (count, sum and buckets agree)");
    if before(t1_e, 1, s.rb, 3) && before(t2_e, 2, s.rb, 3) {
        assert!(describes(&s, &v, &[true, true], 1.0, 2.0), "C02 snapshot contains every observation completed before the collection started");
    }
    vcover!(describes(&s, &v, &[false, true], 1.0, 2.0) && a != b && a != 0.0, "c02.s3: only the second observer's value in the snapshot");
    std::mem::forget(h);
    vcover!(true, "end of harness reached");
}

/// S4: T1 observe(a) ‖ T2 collect ‖ T3 collect: collectors exclude each other, later snapshot
/// contains the earlier; final state complete.
#[cfg_attr(kani, kani::proof, kani::unwind(6))]
pub fn c02_s4_two_collectors() {
    let h = hist(vec![1.0]);
    register(&h, 8);
    let a = small();
    vs::begin_threads();
    vs::start_thread();
    h.core.observe(a);
    vs::start_thread();
    let s1 = collect(&h);
    vs::start_thread();
    let s2 = collect(&h);
    vs::assume_consistent();
    let e1 = describes(&s1, &[a], &[false], 1.0, f64::NAN);
    let f1 = describes(&s1, &[a], &[true], 1.0, f64::NAN);
    let e2 = describes(&s2, &[a], &[false], 1.0, f64::NAN);
    let f2 = describes(&s2, &[a], &[true], 1.0, f64::NAN);
    assert!((e1 || f1) && (e2 || f2), "C02 each snapshot describes one set of observations");
    if before(s1.re, 2, s2.rb, 3) { assert!(!(f1 && !f2) || a == 0.0, "C03 snapshots taken one after another describe growing sets"); }
    if before(s2.re, 3, s1.rb, 2) { assert!(!(f2 && !f1) || a == 0.0, "C03 snapshots taken one after another describe growing sets"); }
    let fin = h.core.proto();
    assert!(fin.get_sample_count() == 1 && fin.get_sample_sum() == a && fin.get_bucket()[0].cumulative_count() == (a <= 1.0) as u64,
        "C03 the snapshot taken after all threads finished describes exactly all observations");
    vcover!(e1 && f2 && a != 0.0, "c02.s4: first collector missed it, second saw it");
    vcover!(f1 && e2 && a != 0.0, "c02.s4: third thread's collect ran before the second thread's");
    std::mem::forget(fin);
    std::mem::forget(h);
    vcover!(true, "end of harness reached");
}

/// S5: one observation completed beforehand, then T1 collect ‖ T2 collect: collectors exclude
/// each other; each snapshot describes exactly the observation (count, sum and bucket together),
/// and the totals afterwards are unchanged.
#[cfg_attr(kani, kani::proof, kani::unwind(6))]
pub fn c02_s5_two_collectors_after_observation() {
    let h = hist(vec![1.0]);
    register(&h, 8);
    let a = small();
    h.core.observe(a);
    vs::begin_threads();
    vs::start_thread();
    let s1 = collect(&h);
    vs::start_thread();
    let s2 = collect(&h);
    let waited = vs::cas_fails(1) + vs::cas_fails(2);
    vs::assume_consistent();
    let f1 = describes(&s1, &[a], &[true], 1.0, f64::NAN);
    let f2 = describes(&s2, &[a], &[true], 1.0, f64::NAN);
    assert!(f1 && f2, "C02 each snapshot describes one set of observations (count, sum and buckets agree), including every observation completed before the collection started");
    assert!(h.get_sample_count() == 1 && h.get_sample_sum() == a, "C03 nothing is lost or counted twice across collections");
    vcover!(before(s2.re, 2, s1.rb, 1) || s2.re <= s1.rb, "c02.s5: second thread's collect ran first");
    vcover!(waited == 0, "c02.s5: no collector had to wait");
    std::mem::forget(h);
    vcover!(true, "end of harness reached");
}

/// diagnostic twin of S5: reachability witnesses after every stage
#[cfg_attr(kani, kani::proof, kani::unwind(6))]
pub fn c02_s5_diag() {
    let h = hist(vec![1.0]);
    register(&h, 8);
    vcover!(true, "diag: after register");
    let a = small();
    h.core.observe(a);
    vcover!(true, "diag: after pre-observe");
    vs::begin_threads();
    vs::start_thread();
    let s1 = collect(&h);
    vcover!(true, "diag: after collect 1");
    vcover!(s1.cnt == 1, "diag: collect 1 saw the observation");
    vs::start_thread();
    let s2 = collect(&h);
    vcover!(true, "diag: after collect 2");
    vcover!(s2.cnt == 1, "diag: collect 2 saw the observation");
    vs::assume_consistent();
    vcover!(true, "diag: after assume_consistent");
    let f1 = describes(&s1, &[a], &[true], 1.0, f64::NAN);
    let f2 = describes(&s2, &[a], &[true], 1.0, f64::NAN);
    vcover!(f1, "diag: f1");
    vcover!(f2, "diag: f2");
    vcover!(h.get_sample_count() == 1, "diag: total count 1");
    std::mem::forget(h);
    vcover!(true, "end of harness reached");
}

/// diagnostic: two collects, no observation at all
#[cfg_attr(kani, kani::proof, kani::unwind(6))]
pub fn c02_diag_a() {
    let h = hist(vec![1.0]);
    register(&h, 8);
    vs::begin_threads();
    vs::start_thread();
    let s1 = collect(&h);
    vcover!(s1.cnt == 0, "diag a: after collect 1");
    vs::start_thread();
    let s2 = collect(&h);
    vcover!(s2.cnt == 0, "diag a: after collect 2");
    std::mem::forget(h);
    vcover!(true, "end of harness reached");
}
/// diagnostic: plain (MODE 0) sequential observe, proto, proto without the thread protocol
#[cfg_attr(kani, kani::proof, kani::unwind(6))]
pub fn c02_diag_b() {
    let h = hist(vec![1.0]);
    h.core.observe(1.0);
    let p1 = h.core.proto();
    vcover!(p1.get_sample_count() == 1, "diag b: after proto 1");
    let p2 = h.core.proto();
    vcover!(p2.get_sample_count() == 1, "diag b: after proto 2");
    std::mem::forget((p1, p2));
    std::mem::forget(h);
    vcover!(true, "end of harness reached");
}
/// diagnostic: register + two collects in ONE thread after an observation
#[cfg_attr(kani, kani::proof, kani::unwind(6))]
pub fn c02_diag_c() {
    let h = hist(vec![1.0]);
    register(&h, 8);
    h.core.observe(1.0);
    vs::begin_threads();
    vs::start_thread();
    let s1 = collect(&h);
    vcover!(s1.cnt == 1, "diag c: after collect 1");
    let s2 = collect(&h);
    vcover!(s2.cnt == 1, "diag c: after collect 2");
    std::mem::forget(h);
    vcover!(true, "end of harness reached");
}

/// diagnostic: like diag_a but both collects in thread 1
#[cfg_attr(kani, kani::proof, kani::unwind(6))]
pub fn c02_diag_d() {
    let h = hist(vec![1.0]);
    register(&h, 8);
    vs::begin_threads();
    vs::start_thread();
    let s1 = collect(&h);
    vcover!(s1.cnt == 0, "diag d: after collect 1");
    let s2 = collect(&h);
    vcover!(s2.cnt == 0, "diag d: after collect 2");
    std::mem::forget(h);
    vcover!(true, "end of harness reached");
}
/// diagnostic: like diag_a with finer witnesses in thread 2
#[cfg_attr(kani, kani::proof, kani::unwind(6))]
pub fn c02_diag_e() {
    let h = hist(vec![1.0]);
    register(&h, 8);
    vs::begin_threads();
    vs::start_thread();
    let s1 = collect(&h);
    vs::start_thread();
    vcover!(true, "diag e: thread 2 started");
    vs::sched_point();
    vcover!(true, "diag e: thread 2 after sched_point");
    let g = h.core.collect_lock.lock();
    vcover!(true, "diag e: thread 2 took the lock");
    drop(g);
    let (idx, n) = h.core.shard_and_count.flip(Ordering::AcqRel);
    vcover!(true, "diag e: thread 2 flipped");
    let r = h.core.shards[usize::from(idx)].count.compare_exchange_weak(n, 0, Ordering::Acquire, Ordering::Acquire);
    vcover!(r.is_ok(), "diag e: thread 2 CAS ok");
    vcover!(r.is_err(), "diag e: thread 2 CAS failed");
    let _ = s1;
    std::mem::forget(h);
    vcover!(true, "end of harness reached");
}

/// diagnostic: thread 2 executes proto's body step by step
#[cfg_attr(kani, kani::proof, kani::unwind(6), kani::stub(std::alloc::dealloc, dealloc_noop))]
pub fn c02_diag_f() {
    let h = hist(vec![1.0]);
    register(&h, 8);
    vs::begin_threads();
    vs::start_thread();
    let s1 = collect(&h);
    vs::start_thread();
    let core = &h.core;
    let g = core.collect_lock.lock().expect("Lock poisoned");
    let (cold_i, overall) = core.shard_and_count.flip(Ordering::AcqRel);
    let cold = &core.shards[usize::from(cold_i)];
    let hot = &core.shards[usize::from(cold_i.inverse())];
    while cold.count.compare_exchange_weak(overall, 0, Ordering::Acquire, Ordering::Acquire).is_err() {}
    vcover!(true, "diag f: after wait loop");
    let cs = cold.sum.swap(0.0, Ordering::AcqRel);
    vcover!(true, "diag f: after sum swap");
    let mut hp = proto::Histogram::default();
    hp.set_sample_sum(cs);
    hp.set_sample_count(overall);
    vcover!(true, "diag f: after default/set");
    let mut buckets = Vec::with_capacity(core.upper_bounds.len());
    vcover!(true, "diag f: after with_capacity");
    let c0 = cold.buckets[0].swap(0, Ordering::AcqRel);
    vcover!(true, "diag f: after bucket swap");
    hot.buckets[0].inc_by(c0);
    vcover!(true, "diag f: after hot bucket add");
    let mut b = proto::Bucket::default();
    b.set_cumulative_count(c0);
    b.set_upper_bound(core.upper_bounds[0]);
    buckets.push(b);
    vcover!(true, "diag f: after push");
    hp.set_bucket(buckets);
    vcover!(true, "diag f: after set_bucket");
    hot.count.inc_by(overall);
    vcover!(true, "diag f: after hot count");
    hot.sum.inc_by(cs);
    vcover!(true, "diag f: after hot sum");
    drop(g);
    vcover!(true, "diag f: after unlock");
    let _ = s1;
    std::mem::forget(hp);
    std::mem::forget(h);
    vcover!(true, "end of harness reached");
}

/// C03: T1 observe(a) ‖ T2 local batch {b, c} flush ‖ T3 three collects; then quiescent checks.
#[cfg_attr(kani, kani::proof, kani::unwind(6))]
pub fn c03_batch_flush_three_collects() {
    let h = hist(vec![1.0]);
    register(&h, 8);
    let (a, b, c) = (small(), small(), small());
    vs::begin_threads();
    vs::start_thread();
    h.core.observe(a);
    vs::start_thread();
    let l = h.local();
    l.observe(b);
    l.observe(c);
    l.flush();
    vs::start_thread();
    let s1 = collect(&h);
    let s2 = collect(&h);
    let s3 = collect(&h);
    vs::assume_consistent();
    let v = [a, b, c];
    let d = |s: &Snap, ia: bool, ib: bool| describes(s, &v, &[ia, ib, ib], 1.0, f64::NAN);
    let ok = |s: &Snap| d(s, false, false) || d(s, true, false) || d(s, false, true) || d(s, true, true);
    assert!(ok(&s1) && ok(&s2) && ok(&s3), "C03 a flushed local batch appears in a snapshot entirely or not at all");
    assert!(s1.cnt <= s2.cnt && s2.cnt <= s3.cnt, "C03 snapshots taken one after another describe growing sets");
    let fin = h.core.proto();
    assert!(fin.get_sample_count() == 3 && fin.get_sample_sum() == a + b + c, "C03 final snapshot describes exactly all observations");
    assert!(h.get_sample_count() == 3 && h.get_sample_sum() == a + b + c, "C03 get_sample_count / get_sample_sum agree with the final snapshot");
    vcover!(s1.cnt == 1 && s2.cnt == 1 && s3.cnt == 3, "c03: batch lands between second and third collect");
    vcover!(s1.cnt == 2 && s2.cnt == 3, "c03: batch first, then the single observation");
    std::mem::forget(fin);
    std::mem::forget(l);
    std::mem::forget(h);
    vcover!(true, "end of harness reached");
}

pub fn dispatch(name: &str) -> Option<fn()> {
    Some(match name {
        "c02_s1_observe_vs_collect" => c02_s1_observe_vs_collect,
        "c02_s1_fixed_value_observe_vs_collect" => c02_s1_fixed_value_observe_vs_collect,
        "c02_s2_two_observes_prefix_closed" => c02_s2_two_observes_prefix_closed,
        "c02_s3_two_observers_vs_collect" => c02_s3_two_observers_vs_collect,
        "c02_s4_two_collectors" => c02_s4_two_collectors,
        "c02_s5_two_collectors_after_observation" => c02_s5_two_collectors_after_observation,
        "c02_s5_diag" => c02_s5_diag,
        "c03_batch_flush_three_collects" => c03_batch_flush_three_collects,
        _ => return None,
    })
}
