//! C05 — a metric vector keeps exactly one child per distinct label-value tuple.
//! Hosted in `crate::vec` (unit access to `hash_label_values`, `hash_labels`, `get_label_values`). FNV-1a is replaced by an injective packing of the hashed byte
//! stream (E4), the children map is the abstract finite map (E6).
use crate::verif_incrate::common::*;
use super::*;
use crate::counter::{IntCounterVec, IntCounter};
use crate::metrics::Opts;

pub fn describe_xy(_o: &Opts) -> crate::errors::Result<Desc> {
    Ok(Desc { fq_name: String::from("a"), help: String::from("h"), const_label_pairs: Vec::new(),
        variable_labels: vec![String::from("x"), String::from("y")], id: 0, dim_hash: 0 })
}
fn vec2() -> IntCounterVec {
    IntCounterVec::new(Opts::new("a", "h"), &["x", "y"]).unwrap()
}

/// Slice form: hash of (a1,a2) == hash of (b1,b2) exactly when the tuples are equal position by
/// position; values are symbolic strings of 0..=2 bytes (boundary-shifted tuples included).
#[cfg_attr(kani, kani::proof, kani::unwind(5),
    kani::stub(std::fmt::format, fmt_stub),
    kani::stub(<crate::metrics::Opts as crate::desc::Describer>::describe, describe_xy),
    kani::stub(<fnv::FnvHasher as std::hash::Hasher>::write, fnv_write_injective))]
pub fn c05_slice_form_child_key_injective() {
    let v = vec2();
    let (mut ba1, mut ba2, mut bb1, mut bb2) = ([0u8; 2], [0u8; 2], [0u8; 2], [0u8; 2]);
    let (a1, a2, b1, b2) = (sym_str2(&mut ba1), sym_str2(&mut ba2), sym_str2(&mut bb1), sym_str2(&mut bb2));
    let ha = v.v.hash_label_values(&[a1, a2]).unwrap();
    let hb = v.v.hash_label_values(&[b1, b2]).unwrap();
    let same = str_eq2(a1, b1) && str_eq2(a2, b2);
    vcover!(!same && a1.len() + a2.len() == b1.len() + b2.len() && a1.len() != b1.len(), "c05.slice: boundary-shifted tuples");
    vcover!(same && a1.len() == 2, "c05.slice: equal tuples");
    assert!((ha == hb) == same, "C05 two requests address the same child exactly when their label values are equal position by position");
    std::mem::forget(v);
    vcover!(true, "end of harness reached");
}

/// Map form: same key as the slice form for the same values, independent of insertion order.
#[cfg_attr(kani, kani::proof, kani::unwind(5),
    kani::stub(std::fmt::format, fmt_stub),
    kani::stub(<crate::metrics::Opts as crate::desc::Describer>::describe, describe_xy),
    kani::stub(<fnv::FnvHasher as std::hash::Hasher>::write, fnv_write_injective))]
pub fn c05_map_form_matches_slice_form() {
    let v = vec2();
    let (mut ba1, mut ba2, mut bb1, mut bb2) = ([0u8; 2], [0u8; 2], [0u8; 2], [0u8; 2]);
    let (a1, a2, b1, b2) = (sym_str2(&mut ba1), sym_str2(&mut ba2), sym_str2(&mut bb1), sym_str2(&mut bb2));
    let mut ma: Map<&str, &str> = Map::new();
    if any_bool() {
        ma.insert("x", a1);
        ma.insert("y", a2);
    } else {
        ma.insert("y", a2);
        ma.insert("x", a1);
    }
    let mut mb: Map<&str, &str> = Map::new();
    mb.insert("x", b1);
    mb.insert("y", b2);
    let ha = v.v.hash_labels(&ma).unwrap();
    let hb = v.v.hash_labels(&mb).unwrap();
    let hs = v.v.hash_label_values(&[a1, a2]).unwrap();
    let same = str_eq2(a1, b1) && str_eq2(a2, b2);
    assert!((ha == hb) == same, "C05 map form: same child exactly when equal for every label name");
    assert!(ha == hs, "C05 map form and slice form address the same child");
    let vals = v.v.get_label_values(&ma).unwrap();
    assert!(vals.len() == 2 && str_eq2(vals[0], a1) && str_eq2(vals[1], a2), "C05 map form yields the values in declared label order");
    std::mem::forget(vals);
    std::mem::forget(ma);
    std::mem::forget(mb);
    std::mem::forget(v);
    vcover!(true, "end of harness reached");
}

/// Wrong number of values (0, 1 or 3 for 2 declared labels) is refused by the key function that
/// every lookup / removal calls first (`let h = self.hash_label_values(vals)?;` precedes any
/// access to the children map, so nothing is created).
#[cfg_attr(kani, kani::proof, kani::unwind(5),
    kani::stub(std::fmt::format, fmt_stub),
    kani::stub(<crate::metrics::Opts as crate::desc::Describer>::describe, describe_xy))]
pub fn c05_wrong_cardinality_is_an_error() {
    let v = vec2();
    let vals = ["p", "q", "r"];
    assert!(v.v.hash_label_values(&vals[..0]).is_err(), "C05 wrong number of label values is an error");
    assert!(v.v.hash_label_values(&vals[..1]).is_err(), "C05 wrong number of label values is an error");
    assert!(v.v.hash_label_values(&vals[..3]).is_err(), "C05 wrong number of label values is an error");
    assert!(v.v.hash_label_values(&vals[..2]).is_ok());
    std::mem::forget(v);
    vcover!(true, "end of harness reached");
}

/// Map form with a wrong name (right cardinality), a missing name or too many names is refused
/// by the key function every map-form lookup / removal calls first.
#[cfg_attr(kani, kani::proof, kani::unwind(5),
    kani::stub(std::fmt::format, fmt_stub),
    kani::stub(<crate::metrics::Opts as crate::desc::Describer>::describe, describe_xy))]
pub fn c05_wrong_names_are_an_error() {
    let v = vec2();
    let mut m: Map<&str, &str> = Map::new();
    m.insert("x", "p");
    m.insert("z", "q");
    let r = v.v.hash_labels(&m);
    assert!(r.is_err(), "C05 wrong label names are an error");
    let mut m3: Map<&str, &str> = Map::new();
    m3.insert("x", "p");
    m3.insert("y", "q");
    m3.insert("z", "r");
    let r3 = v.v.hash_labels(&m3);
    assert!(r3.is_err(), "C05 too many label names are an error");
    let mut m1: Map<&str, &str> = Map::new();
    m1.insert("x", "p");
    let r1 = v.v.hash_labels(&m1);
    assert!(r1.is_err(), "C05 a missing label name is an error");
    std::mem::forget((r, r1, r3));
    std::mem::forget((m, m1, m3));
    std::mem::forget(v);
    vcover!(true, "end of harness reached");
}

pub fn dispatch(name: &str) -> Option<fn()> {
    Some(match name {
        "c05_slice_form_child_key_injective" => c05_slice_form_child_key_injective,
        "c05_map_form_matches_slice_form" => c05_map_form_matches_slice_form,
        "c05_wrong_cardinality_is_an_error" => c05_wrong_cardinality_is_an_error,
        "c05_wrong_names_are_an_error" => c05_wrong_names_are_an_error,
        _ => return None,
    })
}
