//! C09 — only well-formed, pairwise distinct names reach an exposed sample.
//! Hosted in `crate::desc` (unit access to `is_valid_metric_name` / `is_valid_label_name`).
use crate::verif_incrate::common::*;
use super::*;

fn any_char() -> char {
    let u = any_u32();
    assume(u <= 0x10FFFF && !(u >= 0xD800 && u <= 0xDFFF));
    unsafe { char::from_u32_unchecked(u) }
}
/// A symbolic string of 0..=N arbitrary Unicode scalar values, held in a stack buffer.
struct SymStr<const N: usize> {
    buf: [u8; 16],
    len: usize,
    chars: [char; N],
    n: usize,
}
impl<const N: usize> SymStr<N> {
    fn new() -> Self {
        let n = any_usize();
        assume(n <= N);
        let mut s = SymStr { buf: [0; 16], len: 0, chars: ['a'; N], n };
        let mut i = 0;
        while i < N {
            let c = any_char();
            if i < n {
                s.chars[i] = c;
                s.len += c.encode_utf8(&mut s.buf[s.len..]).len();
            }
            i += 1;
        }
        s
    }
    fn as_str(&self) -> &str {
        unsafe { std::str::from_utf8_unchecked(&self.buf[..self.len]) }
    }
}
fn spec_first(c: char, colon: bool) -> bool {
    (c >= 'a' && c <= 'z') || (c >= 'A' && c <= 'Z') || c == '_' || (colon && c == ':')
}
fn spec_rest(c: char, colon: bool) -> bool {
    spec_first(c, colon) || (c >= '0' && c <= '9')
}
/// `[a-zA-Z_:][a-zA-Z0-9_:]*` (colon = true) / `[a-zA-Z_][a-zA-Z0-9_]*` (colon = false)
fn spec_ident(chars: &[char], n: usize, colon: bool) -> bool {
    if n == 0 {
        return false;
    }
    let mut ok = spec_first(chars[0], colon);
    let mut i = 1;
    while i < chars.len() {
        if i < n && !spec_rest(chars[i], colon) {
            ok = false;
        }
        i += 1;
    }
    ok
}

/// `is_valid_metric_name` == the metric-name regex, for every string of <= 3 Unicode scalars.
#[cfg_attr(kani, kani::proof, kani::unwind(6))]
pub fn c09_metric_name_regex_3chars() {
    let s = SymStr::<3>::new();
    let want = spec_ident(&s.chars, s.n, true);
    vcover!(want && s.n == 3, "c09.metric: valid 3-char name");
    vcover!(!want && s.n == 3 && s.chars[2] as u32 > 0x7f, "c09.metric: non-ASCII third char");
    assert!(is_valid_metric_name(s.as_str()) == want, "C09 metric name accepted iff it matches [a-zA-Z_:][a-zA-Z0-9_:]*");
}
/// `is_valid_label_name` == the label-name regex, for every string of <= 3 Unicode scalars.
#[cfg_attr(kani, kani::proof, kani::unwind(6))]
pub fn c09_label_name_regex_3chars() {
    let s = SymStr::<3>::new();
    let want = spec_ident(&s.chars, s.n, false);
    vcover!(want && s.n == 3, "c09.label: valid 3-char name");
    vcover!(!want && s.n >= 1 && s.chars[0] == ':', "c09.label: leading colon rejected");
    assert!(is_valid_label_name(s.as_str()) == want, "C09 label name accepted iff it matches [a-zA-Z_][a-zA-Z0-9_]*");
}

/// `Desc::new` applies the checks: symbolic 2-char metric name and variable label, help empty or not.
#[cfg_attr(kani, kani::proof, kani::unwind(8),
    kani::stub(std::fmt::format, fmt_stub))]
pub fn c09_desc_new_checks_names() {
    let name = SymStr::<2>::new();
    let label = SymStr::<2>::new();
    let help_empty = any_bool();
    let want = !help_empty && spec_ident(&name.chars, name.n, true) && spec_ident(&label.chars, label.n, false);
    let r = Desc::new(
        String::from(name.as_str()),
        String::from(if help_empty { "" } else { "h" }),
        vec![String::from(label.as_str())],
        HashMap::new(),
    );
    vcover!(want, "c09.desc: accepted");
    assert!(r.is_ok() == want, "C09 Desc::new accepts exactly valid names with non-empty help");
    std::mem::forget(r);
}

/// Label-name pool. All names have the same length (2 bytes) so that every `String` built from
/// a symbolic choice has a concrete length (symbolic allocation sizes blow CBMC up).
fn pool_name(k: u8) -> &'static str {
    match k {
        0 => "aa",
        1 => "bb",
        2 => "cc",
        3 => "le",
        4 => "9x",
        _ => "a-",
    }
}
fn pool_valid(k: u8) -> bool {
    k <= 3
}

/// Duplicate detection across const and variable labels (names from a pool, map form).
#[cfg_attr(kani, kani::proof, kani::unwind(8),
    kani::stub(std::fmt::format, fmt_stub))]
pub fn c09_desc_new_rejects_duplicate_label_names() {
    let (c1, v1, v2) = (any_u8(), any_u8(), any_u8());
    assume(c1 < 6 && v1 < 6 && v2 < 6);
    let nvar = any_u8();
    assume(nvar <= 2);
    let has_const = any_bool();
    let mut cl = HashMap::new();
    if has_const {
        cl.insert(String::from(pool_name(c1)), String::from("1"));
    }
    let mut vl = Vec::new();
    if nvar >= 1 {
        vl.push(String::from(pool_name(v1)));
    }
    if nvar >= 2 {
        vl.push(String::from(pool_name(v2)));
    }
    let valid = (!has_const || pool_valid(c1)) && (nvar < 1 || pool_valid(v1)) && (nvar < 2 || pool_valid(v2));
    let dup = (has_const && nvar >= 1 && c1 == v1) || (has_const && nvar >= 2 && c1 == v2) || (nvar >= 2 && v1 == v2);
    let r = Desc::new(String::from("m"), String::from("h"), vl, cl);
    vcover!(valid && dup, "c09.dup: duplicate among valid names");
    vcover!(valid && !dup && has_const && nvar == 2, "c09.dup: three distinct names accepted");
    assert!(r.is_ok() == (valid && !dup), "C09 a label name occurring twice among const and variable labels is rejected");
    std::mem::forget(r);
}

/// Histograms reject the reserved label name `le` (const or variable).
#[cfg_attr(kani, kani::proof, kani::unwind(8),
    kani::stub(std::fmt::format, fmt_stub))]
pub fn c09_histogram_rejects_le() {
    let (c1, v1) = (any_u8(), any_u8());
    assume(c1 < 4 && v1 < 4 && c1 != v1);
    let use_const = any_bool();
    let mut opts = crate::histogram::HistogramOpts::new("m", "h").buckets(vec![1.0]);
    if use_const {
        opts = opts.const_label(pool_name(c1), "1");
    }
    opts = opts.variable_label(pool_name(v1));
    let r = crate::histogram::HistogramCore::new(&opts, &["x"]);
    let has_le = (use_const && c1 == 3) || v1 == 3;
    vcover!(has_le, "c09.le: le present");
    assert!(r.is_ok() == !has_le, "C09 histograms reject the reserved label name le");
    std::mem::forget(r);
}

pub fn dispatch(name: &str) -> Option<fn()> {
    Some(match name {
        "c09_metric_name_regex_3chars" => c09_metric_name_regex_3chars,
        "c09_label_name_regex_3chars" => c09_label_name_regex_3chars,
        "c09_desc_new_checks_names" => c09_desc_new_checks_names,
        "c09_desc_new_rejects_duplicate_label_names" => c09_desc_new_rejects_duplicate_label_names,
        "c09_histogram_rejects_le" => c09_histogram_rejects_le,
        _ => return None,
    })
}
