//! C09 — only well-formed, pairwise distinct names reach an exposed sample.
//! Hosted in `crate::desc` (unit access to `is_valid_metric_name` / `is_valid_label_name`).
use crate::verif_incrate::common::*;
use super::*;

fn any_char() -> char {
    let u = any_u32();
    assume(u <= 0x10FFFF && !(u >= 0xD800 && u <= 0xDFFF));
    unsafe { char::from_u32_unchecked(u) }
}
/// A symbolic string of 0..=N arbitrary Unicode scalar values, held in a stack buffer.
struct SymStr<const N: usize> {
    buf: [u8; 16],
    len: usize,
    chars: [char; N],
    n: usize,
}
impl<const N: usize> SymStr<N> {
    fn new() -> Self {
        let n = any_usize_in(0, N + 1);
        let mut s = SymStr { buf: [0; 16], len: 0, chars: ['a'; N], n };
        let mut i = 0;
        while i < N {
            let c = any_char();
            if i < n {
                s.chars[i] = c;
                s.len += c.encode_utf8(&mut s.buf[s.len..]).len();
            }
            i += 1;
        }
        s
    }
    fn as_str(&self) -> &str {
        unsafe { std::str::from_utf8_unchecked(&self.buf[..self.len]) }
    }
}
fn spec_first(c: char, colon: bool) -> bool {
    (c >= 'a' && c <= 'z') || (c >= 'A' && c <= 'Z') || c == '_' || (colon && c == ':')
}
fn spec_rest(c: char, colon: bool) -> bool {
    spec_first(c, colon) || (c >= '0' && c <= '9')
}
/// `[a-zA-Z_:][a-zA-Z0-9_:]*` (colon = true) / `[a-zA-Z_][a-zA-Z0-9_]*` (colon = false)
fn spec_ident(chars: &[char], n: usize, colon: bool) -> bool {
    if n == 0 {
        return false;
    }
    let mut ok = spec_first(chars[0], colon);
    let mut i = 1;
    while i < chars.len() {
        if i < n && !spec_rest(chars[i], colon) {
            ok = false;
        }
        i += 1;
    }
    ok
}

/// `is_valid_metric_name` == the metric-name regex, for every string of <= 3 Unicode scalars.
#[cfg_attr(kani, kani::proof, kani::unwind(6))]
pub fn c09_metric_name_regex_3chars() {
    let s = SymStr::<3>::new();
    let want = spec_ident(&s.chars, s.n, true);
    vcover!(want && s.n == 3, "c09.metric: valid 3-char name");
    vcover!(!want && s.n == 3 && s.chars[2] as u32 > 0x7f, "c09.metric: non-ASCII third char");
    assert!(is_valid_metric_name(s.as_str()) == want, "C09 metric name accepted iff it matches [a-zA-Z_:][a-zA-Z0-9_:]*");
    vcover!(true, "end of harness reached");
}
/// `is_valid_label_name` == the label-name regex, for every string of <= 3 Unicode scalars.
#[cfg_attr(kani, kani::proof, kani::unwind(6))]
pub fn c09_label_name_regex_3chars() {
    let s = SymStr::<3>::new();
    let want = spec_ident(&s.chars, s.n, false);
    vcover!(want && s.n == 3, "c09.label: valid 3-char name");
    vcover!(!want && s.n >= 1 && s.chars[0] == ':', "c09.label: leading colon rejected");
    assert!(is_valid_label_name(s.as_str()) == want, "C09 label name accepted iff it matches [a-zA-Z_][a-zA-Z0-9_]*");
    vcover!(true, "end of harness reached");
}

/// `Desc::new` applies the checks: symbolic 2-char metric name and variable label, help empty or not.
#[cfg_attr(kani, kani::proof, kani::unwind(8),
    kani::stub(std::fmt::format, fmt_stub))]
pub fn c09_desc_new_checks_names() {
    let name = SymStr::<2>::new();
    let label = SymStr::<2>::new();
    let help_empty = any_bool();
    let want = !help_empty && spec_ident(&name.chars, name.n, true) && spec_ident(&label.chars, label.n, false);
    let r = Desc::new(
        String::from(name.as_str()),
        String::from(if help_empty { "" } else { "h" }),
        vec![String::from(label.as_str())],
        HashMap::new(),
    );
    vcover!(want, "c09.desc: accepted");
    assert!(r.is_ok() == want, "C09 Desc::new accepts exactly valid names with non-empty help");
    std::mem::forget(r);
    vcover!(true, "end of harness reached");
}

/// Label-name pool: aa bb cc le 9x a- (all 2 bytes, so every `String` has a concrete length;
/// the name is an array value chosen symbolically, not a pointer chosen symbolically).
fn pool_bytes(k: u8) -> [u8; 2] {
    match k {
        0 => *b"aa",
        1 => *b"bb",
        2 => *b"cc",
        3 => *b"le",
        4 => *b"9x",
        _ => *b"a-",
    }
}
fn pool_string(k: u8) -> String {
    let b = pool_bytes(k);
    unsafe { String::from_utf8_unchecked(vec![b[0], b[1]]) }
}
fn pool_valid(k: u8) -> bool {
    k <= 3
}
fn any_k() -> u8 {
    any_u8_below(6)
}

/// Duplicate detection across one const and two variable labels (names symbolic from the pool).
#[cfg_attr(kani, kani::proof, kani::unwind(6),
    kani::stub(std::fmt::format, fmt_scripted))]
pub fn c09_desc_new_rejects_duplicate_label_names() {
    let (c1, v1, v2) = (any_k(), any_k(), any_k());
    fmt_script_reset();
    if pool_valid(c1) && pool_valid(v1) && c1 != v1 {
        // Desc::new formats "$<name>" for each valid variable label it reaches, in order
        fmt_script_push(b'$', &pool_bytes(v1));
        if pool_valid(v2) && c1 != v2 {
            fmt_script_push(b'$', &pool_bytes(v2));
        }
    }
    let mut cl = HashMap::new();
    cl.insert(pool_string(c1), String::from("1"));
    let vl = vec![pool_string(v1), pool_string(v2)];
    let valid = pool_valid(c1) && pool_valid(v1) && pool_valid(v2);
    let dup = c1 == v1 || c1 == v2 || v1 == v2;
    let r = Desc::new(String::from("m"), String::from("h"), vl, cl);
    vcover!(valid && c1 == v2 && v1 != v2, "c09.dup: a variable label repeats the const label's name");
    vcover!(valid && !dup, "c09.dup: three distinct names accepted");
    assert!(r.is_ok() == (valid && !dup), "C09 a label name occurring twice among const and variable labels is rejected");
    std::mem::forget(r);
    vcover!(true, "end of harness reached");
}

/// Two const labels + one variable label.
#[cfg_attr(kani, kani::proof, kani::unwind(6))]
pub fn c09_desc_new_two_const_one_variable() {
    let (c1, c2, v1) = (any_k(), any_k(), any_k());
    assume(c1 != c2); // a map cannot hold the same key twice
    let mut cl = HashMap::new();
    cl.insert(pool_string(c1), String::from("1"));
    cl.insert(pool_string(c2), String::from("2"));
    let valid = pool_valid(c1) && pool_valid(c2) && pool_valid(v1);
    let dup = c1 == v1 || c2 == v1;
    let r = Desc::new(String::from("m"), String::from("h"), vec![pool_string(v1)], cl);
    vcover!(valid && dup, "c09.dup2: variable label repeats a const label");
    assert!(r.is_ok() == (valid && !dup), "C09 a label name occurring twice among const and variable labels is rejected");
    std::mem::forget(r);
    vcover!(true, "end of harness reached");
}

/// Three variable labels (names symbolic from the valid part of the pool): a repetition
/// anywhere, adjacent or not, is rejected.
#[cfg_attr(kani, kani::proof, kani::unwind(6),
    kani::stub(std::fmt::format, fmt_scripted))]
pub fn c09_desc_new_three_variable_labels() {
    let (v1, v2, v3) = (any_u8_below(4), any_u8_below(4), any_u8_below(4));
    fmt_script_reset();
    fmt_script_push(b'$', &pool_bytes(v1));
    fmt_script_push(b'$', &pool_bytes(v2));
    if v1 != v2 {
        fmt_script_push(b'$', &pool_bytes(v3));
    }
    let vl = vec![pool_string(v1), pool_string(v2), pool_string(v3)];
    let dup = v1 == v2 || v1 == v3 || v2 == v3;
    let r = Desc::new(String::from("m"), String::from("h"), vl, HashMap::new());
    vcover!(v1 == v3 && v1 != v2, "c09.dup3: non-adjacent repetition");
    vcover!(!dup, "c09.dup3: three distinct names");
    assert!(r.is_ok() == !dup, "C09 a label name occurring twice among const and variable labels is rejected");
    std::mem::forget(r);
    vcover!(true, "end of harness reached");
}

fn lit_desc(const_name: &str, var_name: &str) -> Result<Desc> {
    let mut cl = LabelPair::default();
    cl.set_name(String::from(const_name));
    cl.set_value(String::from("1"));
    Ok(Desc { fq_name: String::from("m"), help: String::from("h"), const_label_pairs: vec![cl],
        variable_labels: vec![String::from(var_name)], id: 0, dim_hash: 0 })
}
pub fn describe_le_var(_o: &crate::histogram::HistogramOpts) -> Result<Desc> { lit_desc("aa", "le") }
pub fn describe_le_const(_o: &crate::histogram::HistogramOpts) -> Result<Desc> { lit_desc("le", "aa") }
pub fn describe_no_le(_o: &crate::histogram::HistogramOpts) -> Result<Desc> { lit_desc("aa", "bb") }
fn le_case(expect_ok: bool) {
    let opts = crate::histogram::HistogramOpts::new("m", "h").buckets(vec![1.0]);
    let r = crate::histogram::HistogramCore::new(&opts, &["x"]);
    assert!(r.is_ok() == expect_ok, "C09 histograms reject the reserved label name le");
    std::mem::forget(r);
}
/// Histograms reject `le` as a variable label (descriptor supplied as a literal: what `Desc::new`
/// makes of options is decided by the other harnesses).
#[cfg_attr(kani, kani::proof, kani::unwind(6),
    kani::stub(std::fmt::format, fmt_stub),
    kani::stub(<[crate::proto::LabelPair]>::sort, sort_stub),
    kani::stub(<crate::histogram::HistogramOpts as crate::desc::Describer>::describe, describe_le_var))]
pub fn c09_histogram_rejects_le_variable() {
    le_case(false);
    vcover!(true, "end of harness reached");
}
/// Histograms reject `le` as a const label.
#[cfg_attr(kani, kani::proof, kani::unwind(6),
    kani::stub(std::fmt::format, fmt_stub),
    kani::stub(<[crate::proto::LabelPair]>::sort, sort_stub),
    kani::stub(<crate::histogram::HistogramOpts as crate::desc::Describer>::describe, describe_le_const))]
pub fn c09_histogram_rejects_le_const() {
    le_case(false);
    vcover!(true, "end of harness reached");
}
/// ... and accept other label names.
#[cfg_attr(kani, kani::proof, kani::unwind(6),
    kani::stub(std::fmt::format, fmt_stub),
    kani::stub(<[crate::proto::LabelPair]>::sort, sort_stub),
    kani::stub(<crate::histogram::HistogramOpts as crate::desc::Describer>::describe, describe_no_le))]
pub fn c09_histogram_accepts_other_labels() {
    le_case(true);
    vcover!(true, "end of harness reached");
}

pub fn dispatch(name: &str) -> Option<fn()> {
    Some(match name {
        "c09_metric_name_regex_3chars" => c09_metric_name_regex_3chars,
        "c09_label_name_regex_3chars" => c09_label_name_regex_3chars,
        "c09_desc_new_checks_names" => c09_desc_new_checks_names,
        "c09_desc_new_rejects_duplicate_label_names" => c09_desc_new_rejects_duplicate_label_names,
        "c09_desc_new_two_const_one_variable" => c09_desc_new_two_const_one_variable,
        "c09_desc_new_three_variable_labels" => c09_desc_new_three_variable_labels,
        "c09_histogram_rejects_le_variable" => c09_histogram_rejects_le_variable,
        "c09_histogram_rejects_le_const" => c09_histogram_rejects_le_const,
        "c09_histogram_accepts_other_labels" => c09_histogram_accepts_other_labels,
        _ => return None,
    })
}
