//! C01 — counter increments are never lost and never go backwards (E2: Lal–Reps, K rounds).
//!
//! Threads are run one after the other on the K-version atomics of `crate::verif_sync`; every
//! atomic step of the real `inc_by`/`get`/`flush` code picks its round nondeterministically, so
//! the schedule is a solver variable. Oracles are evaluated after `assume_consistent()`.
use crate::verif_incrate::common::*;
use crate::verif_sync as vs;
use crate::core::{Atomic, Number};
use crate::*;

/// (round, thread) real-time order: did `a` (ending in round ra on thread ta) finish before
/// `b` (beginning in round rb on thread tb) began?
fn before(ra: usize, ta: usize, rb: usize, tb: usize) -> bool {
    ra < rb || (ra == rb && ta < tb)
}

/// Float counter: T1 inc_by(a); T2 local inc_by(b), flush, flush; T3 get, get.
#[cfg_attr(kani, kani::proof, kani::unwind(6),
    kani::stub(std::fmt::format, fmt_stub),
    kani::stub(std::hash::RandomState::new, fixed_random_state),
    kani::stub(crate::desc::Desc::new, cheap_desc))]
pub fn c01_float_inc_flush_read() {
    let c = Counter::new("a", "h").unwrap();
    vs::begin_register();
    let _ = c.get();
    assert!(vs::ncells() == 1);
    let (a, b) = (any_u8() as f64, any_u8() as f64);
    vs::begin_threads();
    // T1
    vs::start_thread();
    vs::sched_point();
    let t1_b = vs::round();
    c.inc_by(a);
    let t1_e = vs::round();
    // T2
    vs::start_thread();
    let l = c.local();
    l.inc_by(b);
    vs::sched_point();
    let t2_b = vs::round();
    l.flush();
    let t2_e = vs::round();
    l.flush();
    // T3
    vs::start_thread();
    vs::sched_point();
    let r1_b = vs::round();
    let g1 = c.get();
    let r1_e = vs::round();
    let g2 = c.get();
    vs::assume_consistent();
    let fin = c.get();
    assert!(fin == a + b, "C01 final value equals the sum of all increments");
    assert!(g1 == 0.0 || g1 == a || g1 == b || g1 == a + b, "C01 concurrent read is a subset sum");
    assert!(g2 == 0.0 || g2 == a || g2 == b || g2 == a + b, "C01 concurrent read is a subset sum");
    assert!(g2 >= g1, "C01 successive reads never decrease");
    // increments completed before the read began are included
    let mut lo = 0.0;
    if before(t1_e, 1, r1_b, 3) { lo += a; }
    if before(t2_e, 2, r1_b, 3) { lo += b; }
    assert!(g1 >= lo, "C01 read contains every increment completed before it began");
    // increments started after the read returned are excluded
    let mut hi = a + b;
    if before(r1_e, 3, t1_b, 1) { hi -= a; }
    if before(r1_e, 3, t2_b, 2) { hi -= b; }
    assert!(g1 <= hi, "C01 read contains no increment started after it returned");
    vcover!(g1 == a && a != 0.0 && b != 0.0 && a != b, "c01.float: reader saw only T1's increment");
    vcover!(g1 == b && a != 0.0 && b != 0.0 && a != b, "c01.float: reader saw only T2's flush");
    vcover!(g1 == 0.0 && g2 == a + b && a + b != 0.0, "c01.float: both increments between the two reads");
    std::mem::forget(l);
    std::mem::forget(c);
    vcover!(true, "end of harness reached");
}

/// Integer counter: same scenario on `IntCounter` (fetch_add).
#[cfg_attr(kani, kani::proof, kani::unwind(6),
    kani::stub(std::fmt::format, fmt_stub),
    kani::stub(std::hash::RandomState::new, fixed_random_state),
    kani::stub(crate::desc::Desc::new, cheap_desc))]
pub fn c01_int_inc_flush_read() {
    let c = IntCounter::new("a", "h").unwrap();
    vs::begin_register();
    let _ = c.get();
    assert!(vs::ncells() == 1);
    let (a, b) = (any_u8() as u64, any_u8() as u64);
    vs::begin_threads();
    vs::start_thread();
    vs::sched_point();
    let t1_b = vs::round();
    c.inc();
    c.inc_by(a);
    let t1_e = vs::round();
    vs::start_thread();
    let l = c.local();
    l.inc_by(b);
    vs::sched_point();
    let t2_b = vs::round();
    l.flush();
    let t2_e = vs::round();
    l.flush();
    vs::start_thread();
    vs::sched_point();
    let r1_b = vs::round();
    let g1 = c.get();
    let r1_e = vs::round();
    let g2 = c.get();
    vs::assume_consistent();
    let fin = c.get();
    assert!(fin == a + 1 + b, "C01 final value equals the sum of all increments");
    let ok = |g: u64| g == 0 || g == 1 || g == 1 + a || g == b || g == 1 + b || g == 1 + a + b;
    assert!(ok(g1) && ok(g2), "C01 concurrent read is a prefix-closed subset sum");
    assert!(g2 >= g1, "C01 successive reads never decrease");
    let mut lo = 0;
    if before(t1_e, 1, r1_b, 3) { lo += a + 1; }
    if before(t2_e, 2, r1_b, 3) { lo += b; }
    assert!(g1 >= lo, "C01 read contains every increment completed before it began");
    let mut hi = a + 1 + b;
    if before(r1_e, 3, t1_b, 1) { hi -= a + 1; }
    if before(r1_e, 3, t2_b, 2) { hi -= b; }
    assert!(g1 <= hi, "C01 read contains no increment started after it returned");
    vcover!(g1 == 1 && a != 0, "c01.int: reader between inc and inc_by");
    vcover!(g1 == b && b > 1, "c01.int: reader saw only the flush");
    std::mem::forget(l);
    std::mem::forget(c);
    vcover!(true, "end of harness reached");
}

/// Two concurrent `inc_by` on the float counter (the compare-exchange retry loop must not lose
/// an update), no reader: final value = a + b for every schedule.
#[cfg_attr(kani, kani::proof, kani::unwind(6),
    kani::stub(std::fmt::format, fmt_stub),
    kani::stub(std::hash::RandomState::new, fixed_random_state),
    kani::stub(crate::desc::Desc::new, cheap_desc))]
pub fn c01_float_two_writers() {
    let c = Counter::new("a", "h").unwrap();
    vs::begin_register();
    let _ = c.get();
    let (a, b) = (any_u8() as f64, any_u8() as f64);
    vs::begin_threads();
    vs::start_thread();
    c.inc_by(a);
    vs::start_thread();
    c.inc_by(b);
    let fails = vs::cas_fails(1) + vs::cas_fails(2);
    vs::assume_consistent();
    assert!(c.get() == a + b, "C01 final value equals the sum of all increments");
    vcover!(fails > 0, "c01.writers: a compare-exchange failed and was retried");
    std::mem::forget(c);
    vcover!(true, "end of harness reached");
}

/// Reset variant: T1 inc_by(a); T2 get, reset, get. The read after reset may be smaller.
#[cfg_attr(kani, kani::proof, kani::unwind(6),
    kani::stub(std::fmt::format, fmt_stub),
    kani::stub(std::hash::RandomState::new, fixed_random_state),
    kani::stub(crate::desc::Desc::new, cheap_desc))]
pub fn c01_int_reset() {
    let c = IntCounter::new("a", "h").unwrap();
    vs::begin_register();
    let _ = c.get();
    let a = any_u8() as u64;
    vs::begin_threads();
    vs::start_thread();
    c.inc_by(a);
    vs::start_thread();
    let g1 = c.get();
    c.reset();
    let g2 = c.get();
    vs::assume_consistent();
    let fin = c.get();
    assert!(g1 == 0 || g1 == a, "C01 read is a subset sum");
    assert!(g2 == 0 || g2 == a, "C01 read after reset is 0 or the later increment");
    assert!(fin == 0 || fin == a, "C01 final value: increment before or after the reset");
    assert!(!(g2 == a && fin == 0) || a == 0, "C01 an increment seen after the reset is not lost");
    vcover!(g1 == a && g2 == 0 && a != 0, "c01.reset: reset discarded the increment");
    vcover!(g1 == 0 && g2 == a && a != 0, "c01.reset: increment after reset");
    std::mem::forget(c);
    vcover!(true, "end of harness reached");
}

pub fn dispatch(name: &str) -> Option<fn()> {
    Some(match name {
        "c01_float_inc_flush_read" => c01_float_inc_flush_read,
        "c01_int_inc_flush_read" => c01_int_inc_flush_read,
        "c01_float_two_writers" => c01_float_two_writers,
        "c01_int_reset" => c01_int_reset,
        _ => return None,
    })
}
