//! C15 — descriptor identity is structural. Hosted in `crate::desc`.
//! FNV-1a is replaced by an injective packing of the hashed byte stream (E4); the const-label
//! map is the abstract finite map with symbolic iteration order (E6), so "does not depend on
//! insertion order or hash-map iteration order" is decided over all orders.
use crate::verif_incrate::common::*;
use super::*;

/// a String of concrete length `n` (<= 2) with symbolic bytes; `letters`: lower-case letters
/// only (valid in names), otherwise any non-NUL ASCII byte
fn sym_s(n: usize, letters: bool) -> String {
    let (b0, b1) = (any_u8(), any_u8());
    if letters {
        assume(b0 >= b'a' && b0 <= b'z' && b1 >= b'a' && b1 <= b'z');
    } else {
        assume(b0 != 0 && b0 < 128 && b1 != 0 && b1 < 128);
    }
    let v = if n == 0 { Vec::new() } else if n == 1 { vec![b0] } else { vec![b0, b1] };
    unsafe { String::from_utf8_unchecked(v) }
}
fn bytes_eq(a: &String, b: &String) -> bool {
    let (a, b) = (a.as_bytes(), b.as_bytes());
    a.len() == b.len() && (a.len() < 1 || a[0] == b[0]) && (a.len() < 2 || a[1] == b[1])
}
/// two descriptors with one const label "k": (name of ln1 bytes, value of lv1 bytes) and
/// (ln2, lv2), all bytes symbolic: equal ids exactly when name and value are equal
fn id_pair(ln1: usize, lv1: usize, ln2: usize, lv2: usize) {
    let (n1, v1, n2, v2) = (sym_s(ln1, true), sym_s(lv1, false), sym_s(ln2, true), sym_s(lv2, false));
    let same = bytes_eq(&n1, &n2) && bytes_eq(&v1, &v2);
    let mut m1 = Map::new();
    m1.insert(String::from("k"), v1);
    let mut m2 = Map::new();
    m2.insert(String::from("k"), v2);
    let d1 = Desc::new(n1, String::from("h"), Vec::new(), m1).unwrap();
    let d2 = Desc::new(n2, String::from("h"), Vec::new(), m2).unwrap();
    assert!((d1.id == d2.id) == same, "C15 same identity exactly when same name and same const-label values");
    assert!(d1.dim_hash == d2.dim_hash, "C15 same help and label names give the same dimension signature");
    std::mem::forget(d1);
    std::mem::forget(d2);
}

/// id: boundary-shifted splits of 3 bytes: name "xy" + value "z"  vs  name "x" + value "yz".
#[cfg_attr(kani, kani::proof, kani::unwind(6),
    kani::stub(std::fmt::format, fmt_stub),
    kani::stub(<[crate::proto::LabelPair]>::sort, sort_stub),
    kani::stub(<fnv::FnvHasher as std::hash::Hasher>::write, fnv_write_injective))]
pub fn c15_id_boundary_shift_21_vs_12() {
    id_pair(2, 1, 1, 2);
    vcover!(true, "end of harness reached");
}
/// id: name "xy" + empty value  vs  name "x" + value "y".
#[cfg_attr(kani, kani::proof, kani::unwind(6),
    kani::stub(std::fmt::format, fmt_stub),
    kani::stub(<[crate::proto::LabelPair]>::sort, sort_stub),
    kani::stub(<fnv::FnvHasher as std::hash::Hasher>::write, fnv_write_injective))]
pub fn c15_id_boundary_shift_20_vs_11() {
    id_pair(2, 0, 1, 1);
    vcover!(true, "end of harness reached");
}
/// id: same shape (2-byte name, 2-byte value): equal exactly when all bytes are equal.
#[cfg_attr(kani, kani::proof, kani::unwind(6),
    kani::stub(std::fmt::format, fmt_stub),
    kani::stub(<[crate::proto::LabelPair]>::sort, sort_stub),
    kani::stub(<fnv::FnvHasher as std::hash::Hasher>::write, fnv_write_injective))]
pub fn c15_id_same_shape_22() {
    id_pair(2, 2, 2, 2);
    vcover!(true, "end of harness reached");
}

/// id with two const labels: independent of insertion order and of map iteration order; values
/// are taken in label-name order.
#[cfg_attr(kani, kani::proof, kani::unwind(6),
    kani::stub(std::fmt::format, fmt_stub),
    kani::stub(<[crate::proto::LabelPair]>::sort, sort_stub),
    kani::stub(<fnv::FnvHasher as std::hash::Hasher>::write, fnv_write_injective))]
pub fn c15_id_two_const_labels_order_independent() {
    crate::verif_map::set_symbolic_order(true);
    let bytes = [any_u8(), any_u8(), any_u8(), any_u8()];
    assume(bytes[0] != 0 && bytes[0] < 128 && bytes[1] != 0 && bytes[1] < 128 && bytes[2] != 0 && bytes[2] < 128 && bytes[3] != 0 && bytes[3] < 128);
    let s = |b: u8| unsafe { String::from_utf8_unchecked(vec![b]) };
    let mut m1 = Map::new();
    if any_bool() {
        m1.insert(String::from("k"), s(bytes[0]));
        m1.insert(String::from("l"), s(bytes[1]));
    } else {
        m1.insert(String::from("l"), s(bytes[1]));
        m1.insert(String::from("k"), s(bytes[0]));
    }
    let mut m2 = Map::new();
    m2.insert(String::from("k"), s(bytes[2]));
    m2.insert(String::from("l"), s(bytes[3]));
    let d1 = Desc::new(String::from("a"), String::from("h"), Vec::new(), m1).unwrap();
    let d2 = Desc::new(String::from("a"), String::from("h"), Vec::new(), m2).unwrap();
    let same = bytes[0] == bytes[2] && bytes[1] == bytes[3];
    vcover!(!same && bytes[0] == bytes[3] && bytes[1] == bytes[2], "c15.id2: values swapped between the two labels");
    assert!((d1.id == d2.id) == same, "C15 identity: const-label values in label-name order, independent of insertion / iteration order");
    assert!(d1.dim_hash == d2.dim_hash, "C15 dimension signature independent of insertion / iteration order");
    assert!(d1.const_label_pairs.len() == 2 && d1.const_label_pairs[0].name() == "k" && d1.const_label_pairs[1].name() == "l", "C15 const label pairs sorted by name");
    std::mem::forget(d1);
    std::mem::forget(d2);
    vcover!(true, "end of harness reached");
}

fn vl(names: &[&str]) -> Vec<String> {
    let mut v = Vec::with_capacity(2);
    let mut i = 0;
    while i < names.len() {
        v.push(String::from(names[i]));
        i += 1;
    }
    v
}
/// two descriptors with symbolic 1-letter help texts, the given variable-label lists and
/// optionally a const label "x" (values differ): dim_hash equal exactly when the helps are equal
/// and `same_structure`
fn dim_pair(v1: &[&str], c1: bool, v2: &[&str], c2: bool, same_structure: bool) {
    let (h1, h2) = (any_u8(), any_u8());
    assume(h1 >= b'a' && h1 <= b'z' && h2 >= b'a' && h2 <= b'z');
    let s = |b: u8| unsafe { String::from_utf8_unchecked(vec![b]) };
    // Desc::new formats "$<name>" once per variable label, in order: script those results
    fmt_script_reset_width(2);
    let mut k = 0;
    while k < v1.len() { fmt_script_push(b'$', v1[k].as_bytes()); k += 1; }
    k = 0;
    while k < v2.len() { fmt_script_push(b'$', v2[k].as_bytes()); k += 1; }
    let mut m1 = Map::new();
    if c1 { m1.insert(String::from("x"), String::from("1")); }
    let mut m2 = Map::new();
    if c2 { m2.insert(String::from("x"), String::from("2")); }
    let d1 = Desc::new(String::from("a"), s(h1), vl(v1), m1).unwrap();
    let d2 = Desc::new(String::from("a"), s(h2), vl(v2), m2).unwrap();
    assert!((d1.dim_hash == d2.dim_hash) == (h1 == h2 && same_structure),
        "C15 same dimension signature exactly when same help and same sets of const and variable label names");
    if c1 && c2 { assert!(d1.id != d2.id, "C15 different const-label values give different identities"); }
    if !c1 && !c2 { assert!(d1.id == d2.id, "C15 identity does not depend on help or variable labels"); }
    std::mem::forget(d1);
    std::mem::forget(d2);
}

/// dim_hash: variable-label *sets* ([x,y] vs [y,x] equal; [x] vs [y] and [x] vs [x,y] differ).
#[cfg_attr(kani, kani::proof, kani::unwind(6),
    kani::stub(std::fmt::format, fmt_scripted),
    kani::stub(<[crate::proto::LabelPair]>::sort, sort_stub),
    kani::stub(<fnv::FnvHasher as std::hash::Hasher>::write, fnv_write_injective))]
pub fn c15_dim_hash_variable_label_sets() {
    dim_pair(&["x", "y"], false, &["y", "x"], false, true);
    dim_pair(&["x"], false, &["y"], false, false);
    dim_pair(&["x"], false, &["x", "y"], false, false);
    vcover!(true, "end of harness reached");
}
/// dim_hash: a const label x is not a variable label x.
#[cfg_attr(kani, kani::proof, kani::unwind(6),
    kani::stub(std::fmt::format, fmt_scripted),
    kani::stub(<[crate::proto::LabelPair]>::sort, sort_stub),
    kani::stub(<fnv::FnvHasher as std::hash::Hasher>::write, fnv_write_injective))]
pub fn c15_dim_hash_const_vs_variable() {
    dim_pair(&[], true, &["x"], false, false);
    vcover!(true, "end of harness reached");
}
/// dim_hash: same const-name set with different values keeps the signature (and changes the identity).
#[cfg_attr(kani, kani::proof, kani::unwind(6),
    kani::stub(std::fmt::format, fmt_scripted),
    kani::stub(<[crate::proto::LabelPair]>::sort, sort_stub),
    kani::stub(<fnv::FnvHasher as std::hash::Hasher>::write, fnv_write_injective))]
pub fn c15_dim_hash_same_const_names_different_values() {
    dim_pair(&["y"], true, &["y"], true, true);
    vcover!(true, "end of harness reached");
}
/// dim_hash: a const label present vs absent.
#[cfg_attr(kani, kani::proof, kani::unwind(6),
    kani::stub(std::fmt::format, fmt_scripted),
    kani::stub(<[crate::proto::LabelPair]>::sort, sort_stub),
    kani::stub(<fnv::FnvHasher as std::hash::Hasher>::write, fnv_write_injective))]
pub fn c15_dim_hash_const_present_vs_absent() {
    dim_pair(&[], true, &[], false, false);
    vcover!(true, "end of harness reached");
}

/// id with two const labels where one value is empty: ("", v) and (w, "") are told apart (the
/// position of an empty value matters).
#[cfg_attr(kani, kani::proof, kani::unwind(6),
    kani::stub(std::fmt::format, fmt_stub),
    kani::stub(<[crate::proto::LabelPair]>::sort, sort_stub),
    kani::stub(<fnv::FnvHasher as std::hash::Hasher>::write, fnv_write_injective))]
pub fn c15_id_empty_value_position() {
    let (v, w) = (sym_s(1, false), sym_s(1, false));
    let mut m1 = Map::new();
    m1.insert(String::from("k"), String::new());
    m1.insert(String::from("l"), v);
    let mut m2 = Map::new();
    m2.insert(String::from("k"), w);
    m2.insert(String::from("l"), String::new());
    let d1 = Desc::new(String::from("a"), String::from("h"), Vec::new(), m1).unwrap();
    let d2 = Desc::new(String::from("a"), String::from("h"), Vec::new(), m2).unwrap();
    assert!(d1.id != d2.id, "C15 same identity exactly when same name and same const-label values (an empty value still occupies its position)");
    assert!(d1.dim_hash == d2.dim_hash, "C15 same help and label names give the same dimension signature");
    std::mem::forget(d1);
    std::mem::forget(d2);
    vcover!(true, "end of harness reached");
}

pub fn dispatch(name: &str) -> Option<fn()> {
    Some(match name {
        "c15_id_boundary_shift_21_vs_12" => c15_id_boundary_shift_21_vs_12,
        "c15_id_boundary_shift_20_vs_11" => c15_id_boundary_shift_20_vs_11,
        "c15_id_same_shape_22" => c15_id_same_shape_22,
        "c15_id_empty_value_position" => c15_id_empty_value_position,
        "c15_id_two_const_labels_order_independent" => c15_id_two_const_labels_order_independent,
        "c15_dim_hash_variable_label_sets" => c15_dim_hash_variable_label_sets,
        "c15_dim_hash_const_vs_variable" => c15_dim_hash_const_vs_variable,
        "c15_dim_hash_same_const_names_different_values" => c15_dim_hash_same_const_names_different_values,
        "c15_dim_hash_const_present_vs_absent" => c15_dim_hash_const_present_vs_absent,
        _ => return None,
    })
}
