//! C15 — descriptor identity is structural. Hosted in `crate::desc`.
//! FNV-1a is replaced by an injective packing of the hashed byte stream (E4); the const-label
//! map is the abstract finite map with symbolic iteration order (E6), so "does not depend on
//! insertion order or hash-map iteration order" is decided over all orders.
use crate::verif_incrate::common::*;
use super::*;

fn s_eq(a: &str, b: &str) -> bool {
    str_eq2(a, b)
}

/// id: name (1..=2 bytes) and one const label value (0..=2 bytes) symbolic, two descriptors:
/// equal ids exactly when name and value are equal (boundary-shifted splits told apart).
#[cfg_attr(kani, kani::proof, kani::unwind(6),
    kani::stub(std::fmt::format, fmt_stub),
    kani::stub(<fnv::FnvHasher as std::hash::Hasher>::write, fnv_write_injective))]
pub fn c15_id_name_value_boundary() {
    let (n1, v1, n2, v2) = (sym_string2(), sym_string2(), sym_string2(), sym_string2());
    assume(n1.len() >= 1 && n2.len() >= 1);
    let same = s_eq(&n1, &n2) && s_eq(&v1, &v2);
    let shifted = !same && n1.len() + v1.len() == n2.len() + v2.len() && n1.len() != n2.len();
    let mut m1 = Map::new();
    m1.insert(String::from("k"), v1);
    let mut m2 = Map::new();
    m2.insert(String::from("k"), v2);
    let d1 = Desc::new(n1, String::from("h"), Vec::new(), m1);
    let d2 = Desc::new(n2, String::from("h"), Vec::new(), m2);
    if let (Ok(d1), Ok(d2)) = (&d1, &d2) {
        vcover!(shifted, "c15.id: boundary-shifted name/value split with valid names");
        vcover!(same, "c15.id: equal descriptors");
        assert!((d1.id == d2.id) == same, "C15 same identity exactly when same name and same const-label values");
        assert!(d1.dim_hash == d2.dim_hash, "C15 same help and label names give the same dimension signature");
    }
    std::mem::forget(d1);
    std::mem::forget(d2);
}

/// id with two const labels: independent of insertion order and of map iteration order; values
/// are taken in label-name order.
#[cfg_attr(kani, kani::proof, kani::unwind(6),
    kani::stub(std::fmt::format, fmt_stub),
    kani::stub(<fnv::FnvHasher as std::hash::Hasher>::write, fnv_write_injective))]
pub fn c15_id_two_const_labels_order_independent() {
    crate::verif_map::set_symbolic_order(true);
    let bytes = [any_u8(), any_u8(), any_u8(), any_u8()];
    assume(bytes[0] != 0 && bytes[0] < 128 && bytes[1] != 0 && bytes[1] < 128 && bytes[2] != 0 && bytes[2] < 128 && bytes[3] != 0 && bytes[3] < 128);
    let s = |b: u8| unsafe { String::from_utf8_unchecked(vec![b]) };
    let mut m1 = Map::new();
    if any_bool() {
        m1.insert(String::from("k"), s(bytes[0]));
        m1.insert(String::from("l"), s(bytes[1]));
    } else {
        m1.insert(String::from("l"), s(bytes[1]));
        m1.insert(String::from("k"), s(bytes[0]));
    }
    let mut m2 = Map::new();
    m2.insert(String::from("k"), s(bytes[2]));
    m2.insert(String::from("l"), s(bytes[3]));
    let d1 = Desc::new(String::from("a"), String::from("h"), Vec::new(), m1).unwrap();
    let d2 = Desc::new(String::from("a"), String::from("h"), Vec::new(), m2).unwrap();
    let same = bytes[0] == bytes[2] && bytes[1] == bytes[3];
    vcover!(!same && bytes[0] == bytes[3] && bytes[1] == bytes[2], "c15.id2: values swapped between the two labels");
    assert!((d1.id == d2.id) == same, "C15 identity: const-label values in label-name order, independent of insertion / iteration order");
    assert!(d1.dim_hash == d2.dim_hash, "C15 dimension signature independent of insertion / iteration order");
    assert!(d1.const_label_pairs.len() == 2 && d1.const_label_pairs[0].name() == "k" && d1.const_label_pairs[1].name() == "l", "C15 const label pairs sorted by name");
    std::mem::forget(d1);
    std::mem::forget(d2);
}

fn var_labels(k: u8) -> Vec<String> {
    match k {
        0 => Vec::new(),
        1 => vec![String::from("x")],
        2 => vec![String::from("y")],
        3 => vec![String::from("x"), String::from("y")],
        _ => vec![String::from("y"), String::from("x")],
    }
}
fn var_set(k: u8) -> u8 {
    match k { 0 => 0, 1 => 1, 2 => 2, _ => 3 }
}

/// dim_hash: same exactly when same help, same const-name set, same variable-name *set*.
#[cfg_attr(kani, kani::proof, kani::unwind(6),
    kani::stub(std::fmt::format, fmt_stub),
    kani::stub(<fnv::FnvHasher as std::hash::Hasher>::write, fnv_write_injective))]
pub fn c15_dim_hash_structural() {
    let (h1, h2) = (any_u8(), any_u8());
    assume(h1 >= b'a' && h1 <= b'z' && h2 >= b'a' && h2 <= b'z');
    let (k1, k2) = (any_u8(), any_u8());
    assume(k1 < 5 && k2 < 5);
    // a const label "x" instead of a variable label "x" must give a different signature
    let (c1, c2) = (any_bool(), any_bool());
    assume(!(c1 && (k1 != 0 && k1 != 2)) && !(c2 && (k2 != 0 && k2 != 2)));
    let s = |b: u8| unsafe { String::from_utf8_unchecked(vec![b]) };
    let mut m1 = Map::new();
    if c1 { m1.insert(String::from("x"), String::from("1")); }
    let mut m2 = Map::new();
    if c2 { m2.insert(String::from("x"), String::from("2")); }
    let d1 = Desc::new(String::from("a"), s(h1), var_labels(k1), m1).unwrap();
    let d2 = Desc::new(String::from("a"), s(h2), var_labels(k2), m2).unwrap();
    let same = h1 == h2 && c1 == c2 && var_set(k1) == var_set(k2);
    vcover!(same && k1 == 3 && k2 == 4, "c15.dim: same variable-name set in a different order");
    vcover!(!same && c1 && !c2 && k1 == 0 && k2 == 1, "c15.dim: const x vs variable x");
    assert!((d1.dim_hash == d2.dim_hash) == same, "C15 same dimension signature exactly when same help and same sets of const and variable label names");
    if c1 && c2 { assert!(d1.id != d2.id, "C15 different const-label values give different identities"); }
    std::mem::forget(d1);
    std::mem::forget(d2);
}

pub fn dispatch(name: &str) -> Option<fn()> {
    Some(match name {
        "c15_id_name_value_boundary" => c15_id_name_value_boundary,
        "c15_id_two_const_labels_order_independent" => c15_id_two_const_labels_order_independent,
        "c15_dim_hash_structural" => c15_dim_hash_structural,
        _ => return None,
    })
}
