//! Shared stubs (the trusted base, DESIGN.md §3.2) and helpers for the in-crate harnesses.
pub use crate::verif_rt::{
    any_bool, any_f64, any_i64, any_u16, any_u32, any_u64, any_u8, any_usize, assume,
};

/// `std::hash::RandomState::new` → fixed keys (getrandom is a foreign call).
pub fn fixed_random_state() -> std::hash::RandomState {
    unsafe { std::mem::transmute::<(u64, u64), std::hash::RandomState>((0, 0)) }
}
/// `std::fmt::format` → empty string (error messages are not the subject of any property here).
pub fn fmt_stub(_a: std::fmt::Arguments<'_>) -> String {
    String::new()
}
/// `Desc::new` → descriptor from its fields without validation/hashing, for harnesses whose
/// subject is not the descriptor. Variable labels are kept; const labels are dropped.
pub fn cheap_desc(
    fq_name: String,
    help: String,
    variable_labels: Vec<String>,
    const_labels: std::collections::HashMap<String, String>,
) -> crate::errors::Result<crate::desc::Desc> {
    std::mem::forget(const_labels);
    Ok(crate::desc::Desc {
        fq_name,
        help,
        const_label_pairs: Vec::new(),
        variable_labels,
        id: 0,
        dim_hash: 0,
    })
}

/// Bit-exact f64 equality with all NaNs identified (the sum of observations may be any NaN).
pub fn f64_same(a: f64, b: f64) -> bool {
    (a.is_nan() && b.is_nan()) || a.to_bits() == b.to_bits()
}

/// Reachability witness: `kani::cover!` under Kani (one per call site), a log line natively.
macro_rules! vcover {
    ($c:expr, $m:literal) => {{
        #[cfg(kani)]
        kani::cover!($c, $m);
        #[cfg(not(kani))]
        if $c {
            eprintln!("COVER-HIT: {}", $m);
        }
    }};
}
pub(crate) use vcover;

// parking_lot slow paths: unreachable in a sequential run; stubbing them avoids a Kani ICE
// (kani-compiler intrinsics.rs:243) on every path that touches parking_lot::RwLock.
pub fn pl_lock_exclusive_slow(_l: &parking_lot::RawRwLock, _t: Option<std::time::Instant>) -> bool {
    assume(false);
    true
}
pub fn pl_lock_shared_slow(_l: &parking_lot::RawRwLock, _r: bool, _t: Option<std::time::Instant>) -> bool {
    assume(false);
    true
}
pub fn pl_unlock_exclusive_slow(_l: &parking_lot::RawRwLock, _f: bool) {
    assume(false);
}
pub fn pl_unlock_shared_slow(_l: &parking_lot::RawRwLock) {
    assume(false);
}
