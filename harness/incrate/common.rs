//! Shared stubs (the trusted base, DESIGN.md §3.2) and helpers for the in-crate harnesses.
pub use crate::verif_rt::{
    any_bool, any_f64, any_i64, any_u16, any_u32, any_u64, any_u8, any_usize, any_usize_in, assume,
};

/// The map type the crate's internals use in this build (E6 shim or std).
#[cfg(prometheus_verif_map)]
pub use crate::verif_map::HashMap as Map;
#[cfg(not(prometheus_verif_map))]
pub use std::collections::HashMap as Map;

/// `std::hash::RandomState::new` → fixed keys (getrandom is a foreign call).
pub fn fixed_random_state() -> std::hash::RandomState {
    unsafe { std::mem::transmute::<(u64, u64), std::hash::RandomState>((0, 0)) }
}
/// `std::fmt::format` → empty string (error messages are not the subject of any property here).
pub fn fmt_stub(_a: std::fmt::Arguments<'_>) -> String {
    String::new()
}
/// `Desc::new` → descriptor from its fields without validation/hashing, for harnesses whose
/// subject is not the descriptor. Variable labels are kept; const labels are dropped.
pub fn cheap_desc(
    fq_name: String,
    help: String,
    variable_labels: Vec<String>,
    const_labels: Map<String, String>,
) -> crate::errors::Result<crate::desc::Desc> {
    std::mem::forget(const_labels);
    Ok(crate::desc::Desc {
        fq_name,
        help,
        const_label_pairs: Vec::new(),
        variable_labels,
        id: 0,
        dim_hash: 0,
    })
}

/// A u8 below `n` (searchable range draw).
pub fn any_u8_below(n: u8) -> u8 {
    any_usize_in(0, n as usize) as u8
}

/// Bit-exact f64 equality with all NaNs identified (the sum of observations may be any NaN).
pub fn f64_same(a: f64, b: f64) -> bool {
    (a.is_nan() && b.is_nan()) || a.to_bits() == b.to_bits()
}

/// Reachability witness: `kani::cover!` under Kani (one per call site), a log line natively.
macro_rules! vcover {
    ($c:expr, $m:literal) => {{
        #[cfg(kani)]
        kani::cover!($c, $m);
        #[cfg(not(kani))]
        if $c && std::env::var_os("VERIF_COVER_LOG").is_some() {
            eprintln!("COVER-HIT: {}", $m);
        }
    }};
}
pub(crate) use vcover;

// parking_lot slow paths: unreachable in a sequential run; stubbing them avoids a Kani ICE
// (kani-compiler intrinsics.rs:243) on every path that touches parking_lot::RwLock.
pub fn pl_lock_exclusive_slow(_l: &parking_lot::RawRwLock, _t: Option<std::time::Instant>) -> bool {
    assume(false);
    true
}
pub fn pl_lock_shared_slow(_l: &parking_lot::RawRwLock, _r: bool, _t: Option<std::time::Instant>) -> bool {
    assume(false);
    true
}
pub fn pl_unlock_exclusive_slow(_l: &parking_lot::RawRwLock, _f: bool) {
    assume(false);
}
pub fn pl_unlock_shared_slow(_l: &parking_lot::RawRwLock) {
    assume(false);
}

const FNV_BASIS: u64 = 0xcbf29ce484222325;
/// E4: `<FnvHasher as Hasher>::write` -> injective packing of the byte stream into the 64-bit
/// state (`state = state << 8 | byte`; the untouched FNV offset basis stands for the empty
/// stream). Bytes are required to be non-zero, so two hashes are equal exactly when the streams
/// are equal, and the solver decides whether the *serialisation* of label tuples / descriptor
/// parts is injective. Streams longer than 8 bytes or containing NUL are outside the bound and
/// fail the harness loudly.
pub fn fnv_write_injective(h: &mut fnv::FnvHasher, bytes: &[u8]) {
    let s: &mut u64 = unsafe { &mut *(h as *mut fnv::FnvHasher as *mut u64) };
    let mut i = 0;
    while i < bytes.len() {
        if *s == FNV_BASIS {
            *s = 0;
        }
        assert!(*s < (1u64 << 56), "E4 bound: hashed stream longer than 8 bytes");
        assert!(bytes[i] != 0, "E4 bound: NUL byte in hashed stream");
        *s = (*s << 8) | bytes[i] as u64;
        i += 1;
    }
}

/// A symbolic `&str` of length 0..=2 viewed into a symbolic 2-byte buffer: ASCII bytes, or one
/// valid two-byte UTF-8 sequence.
pub fn sym_str2(buf: &mut [u8; 2]) -> &str {
    buf[0] = any_u8();
    buf[1] = any_u8();
    let n = any_usize_in(0, 3);
    let ascii = buf[0] < 128 && buf[1] < 128 && buf[0] != 0 && buf[1] != 0;
    let two = n == 2 && buf[0] >= 0xC2 && buf[0] <= 0xDF && buf[1] >= 0x80 && buf[1] <= 0xBF;
    assume(ascii || two);
    unsafe { std::str::from_utf8_unchecked(&buf[..n]) }
}
pub fn str_eq2(a: &str, b: &str) -> bool {
    let (a, b) = (a.as_bytes(), b.as_bytes());
    a.len() == b.len() && (a.len() < 1 || a[0] == b[0]) && (a.len() < 2 || a[1] == b[1])
}
/// Descriptor stub that keeps variable labels and (sorted) const label pairs, no validation/hashing.
pub fn cheap_desc_keep_labels(
    fq_name: String,
    help: String,
    variable_labels: Vec<String>,
    const_labels: Map<String, String>,
) -> crate::errors::Result<crate::desc::Desc> {
    let mut pairs = Vec::new();
    for (k, v) in const_labels {
        let mut lp = crate::proto::LabelPair::default();
        lp.set_name(k);
        lp.set_value(v);
        pairs.push(lp);
    }
    Ok(crate::desc::Desc { fq_name, help, const_label_pairs: pairs, variable_labels, id: 0, dim_hash: 0 })
}

/// A `String` with a concrete 2-byte heap buffer and a symbolic length 0..=2 (ASCII, non-NUL).
pub fn sym_string2() -> String {
    let (b0, b1) = (any_u8(), any_u8());
    assume(b0 != 0 && b0 < 128 && b1 != 0 && b1 < 128);
    let n = any_usize_in(0, 3);
    let mut v = vec![b0, b1];
    unsafe {
        v.set_len(n);
        String::from_utf8_unchecked(v)
    }
}

static mut NEXT_ID: u64 = 1;
/// `Desc::new` stub for registry harnesses: keeps labels, assigns a fresh id per descriptor and
/// a dimension hash derived from nothing (0): registration logic sees distinct descriptors that
/// agree in dimension.
pub fn cheap_desc_fresh_ids(
    fq_name: String,
    help: String,
    variable_labels: Vec<String>,
    const_labels: Map<String, String>,
) -> crate::errors::Result<crate::desc::Desc> {
    let mut d = cheap_desc_keep_labels(fq_name, help, variable_labels, const_labels)?;
    d.const_label_pairs.sort();
    unsafe {
        d.id = NEXT_ID;
        NEXT_ID = NEXT_ID << 1;
    }
    Ok(d)
}

/// `<[T]>::sort` -> plain stable insertion sort (std's driftsort/smallsort machinery is trusted
/// to sort; its generic small-sort networks cost thousands of memcmp unwindings under CBMC).
pub fn sort_stub<T: Ord>(v: &mut [T]) {
    let mut i = 1;
    while i < v.len() {
        let mut j = i;
        while j > 0 && v[j] < v[j - 1] {
            v.swap(j - 1, j);
            j -= 1;
        }
        i += 1;
    }
}
/// `<[T]>::sort_by` -> plain stable insertion sort.
pub fn sort_by_stub<T, F: FnMut(&T, &T) -> std::cmp::Ordering>(v: &mut [T], mut f: F) {
    let mut i = 1;
    while i < v.len() {
        let mut j = i;
        while j > 0 && f(&v[j], &v[j - 1]) == std::cmp::Ordering::Less {
            v.swap(j - 1, j);
            j -= 1;
        }
        i += 1;
    }
}

// ---- scripted `format!`: the harness knows which strings the code under test will format, in
// which order (e.g. `format!("${}", label)` once per variable label in `Desc::new`), and supplies
// the results; `std::fmt::format` is stubbed by a function that pops them. Real formatting is not
// tractable under CBMC even on concrete strings; its contract ("$" + name) is what is scripted.
// Further calls (error messages) get an empty string. Native replay uses the real `format!`.
static mut FMT_Q: [[u8; 4]; 6] = [[0; 4]; 6];
static mut FMT_LEN: [usize; 6] = [0; 6];
static mut FMT_N: usize = 0;
static mut FMT_WIDTH: usize = 3;
static mut FMT_I: usize = 0;
/// start a script whose entries all have `width` bytes (2 or 3)
pub fn fmt_script_reset_width(width: usize) {
    unsafe {
        FMT_N = 0;
        FMT_I = 0;
        FMT_WIDTH = width;
    }
}
pub fn fmt_script_reset() {
    fmt_script_reset_width(3)
}
/// script the next result: `prefix` followed by `bytes` (at most 3 bytes more)
pub fn fmt_script_push(prefix: u8, bytes: &[u8]) {
    unsafe {
        let k = FMT_N;
        FMT_Q[k][0] = prefix;
        let mut i = 0;
        while i < bytes.len() {
            FMT_Q[k][i + 1] = bytes[i];
            i += 1;
        }
        FMT_LEN[k] = bytes.len() + 1;
        FMT_N += 1;
    }
}
pub fn fmt_scripted(_a: std::fmt::Arguments<'_>) -> String {
    unsafe {
        if FMT_I < FMT_N {
            let k = FMT_I;
            FMT_I += 1;
            let q = FMT_Q[k];
            // one allocation size per harness (FMT_WIDTH is a constant set by the harness): allocation
            // sizes chosen by a symbolic branch confuse CBMC's deallocation checks
            let v = if FMT_WIDTH == 2 { vec![q[0], q[1]] } else { vec![q[0], q[1], q[2]] };
            String::from_utf8_unchecked(v)
        } else {
            String::new()
        }
    }
}

/// second attempt at a `<[T]>::sort_by` stub (where-clause form, as in std)
pub fn sort_by_stub2<T, F>(v: &mut [T], mut compare: F)
where
    F: FnMut(&T, &T) -> std::cmp::Ordering,
{
    let mut i = 1;
    while i < v.len() {
        let mut j = i;
        while j > 0 && compare(&v[j], &v[j - 1]) == std::cmp::Ordering::Less {
            v.swap(j - 1, j);
            j -= 1;
        }
        i += 1;
    }
}

// scripted `format!` with literal results (see above)
static mut FMT_S: [&str; 6] = [""; 6];
static mut FMT_SN: usize = 0;
static mut FMT_SI: usize = 0;
pub fn fmt_script_strs(items: &[&'static str]) {
    unsafe {
        FMT_SN = items.len();
        FMT_SI = 0;
        let mut i = 0;
        while i < items.len() {
            FMT_S[i] = items[i];
            i += 1;
        }
    }
}
pub fn fmt_scripted_strs(_a: std::fmt::Arguments<'_>) -> String {
    unsafe {
        if FMT_SI < FMT_SN {
            let k = FMT_SI;
            FMT_SI += 1;
            String::from(FMT_S[k])
        } else {
            String::new()
        }
    }
}
/// `str::to_lowercase` -> ASCII lower-casing (the only caller formats `MetricType`'s Debug name,
/// which is ASCII; the Unicode case tables are not the subject)
pub fn ascii_lowercase_stub(s: &str) -> String {
    let b = s.as_bytes();
    let mut v = Vec::with_capacity(16);
    let mut i = 0;
    while i < b.len() {
        v.push(if b[i] >= b'A' && b[i] <= b'Z' { b[i] + 32 } else { b[i] });
        i += 1;
    }
    unsafe { String::from_utf8_unchecked(v) }
}

/// `std::alloc::dealloc` -> no-op (memory is leaked instead of freed). Functional properties do
/// not depend on reuse of freed memory, harnesses `forget` their heap values anyway, and CBMC's
/// deallocation model reports spurious precondition failures on some of these harnesses whose
/// implicit assumption then cuts real paths (DESIGN A.9).
pub unsafe fn dealloc_noop(_ptr: *mut u8, _layout: std::alloc::Layout) {}
