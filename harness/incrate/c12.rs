//! C12 — local (unsync) metrics hand over exactly what they accumulated.
//! Inductive shape: the state (shared total, pending local amounts) is made arbitrary through
//! the API, then one or two symbolically chosen operations are applied and the post-state is
//! compared with the reference semantics. Hosted in `crate::histogram`.
use crate::verif_incrate::common::*;
use super::*;
use crate::counter::{IntCounter, Counter, IntCounterVec};

fn hist1() -> Histogram {
    let desc = crate::desc::Desc {
        fq_name: String::from("a"), help: String::from("h"), const_label_pairs: Vec::new(), variable_labels: Vec::new(), id: 0, dim_hash: 0,
    };
    Histogram {
        core: Arc::new(HistogramCore {
            desc, label_pairs: Vec::new(), collect_lock: Mutex::new(()), shard_and_count: ShardAndCount::new(),
            shards: [Shard::new(1), Shard::new(1)], upper_bounds: vec![1.0],
        }),
    }
}

/// IntCounter + two local handles: arbitrary state (s, p1, p2), then two symbolic operations.
#[cfg_attr(kani, kani::proof, kani::unwind(4),
    kani::stub(std::fmt::format, fmt_stub),
    kani::stub(std::hash::RandomState::new, fixed_random_state),
    kani::stub(crate::desc::Desc::new, cheap_desc))]
pub fn c12_int_counter_two_locals_two_ops() {
    let c = IntCounter::new("a", "h").unwrap();
    let l1 = c.local();
    let l2 = c.local();
    let (s0, p1_0, p2_0) = (any_u64() >> 4, any_u64() >> 4, any_u64() >> 4);
    c.inc_by(s0);
    l1.inc_by(p1_0);
    l2.inc_by(p2_0);
    let (mut s, mut p1, mut p2) = (s0, p1_0, p2_0);
    let mut step = 0;
    while step < 2 {
        let op = any_u8_below(9);
        let x = any_u64() >> 4;
        match op {
            0 => { l1.inc_by(x); p1 += x; }
            1 => { l1.inc(); p1 += 1; }
            2 => { l1.flush(); s += p1; p1 = 0; }
            3 => { l1.reset(); p1 = 0; }
            4 => { l2.flush(); s += p2; p2 = 0; }
            5 => { c.inc_by(x); s += x; }
            6 => { c.reset(); s = 0; }
            7 => {
                let l3 = l1.clone();
                assert!(l3.get() == 0, "C12 a clone starts empty");
                l3.inc_by(x);
                l3.flush();
                s += x;
                std::mem::forget(l3);
            }
            _ => { l1.flush(); l1.flush(); s += p1; p1 = 0; }
        }
        assert!(c.get() == s, "C12 shared counter = direct updates + flushed batches");
        assert!(l1.get() == p1 && l2.get() == p2, "C12 local amounts: only unflushed data, handles independent");
        step += 1;
    }
    vcover!(s != s0 && p1 == 0 && p1_0 != 0, "c12.int: a flush moved pending data");
    std::mem::forget(l1);
    std::mem::forget(l2);
    std::mem::forget(c);
    vcover!(true, "end of harness reached");
}

/// Float counter local: flush adds exactly the accumulated amount, second flush adds nothing.
#[cfg_attr(kani, kani::proof, kani::unwind(4),
    kani::stub(std::fmt::format, fmt_stub),
    kani::stub(std::hash::RandomState::new, fixed_random_state),
    kani::stub(crate::desc::Desc::new, cheap_desc))]
pub fn c12_float_counter_flush_twice() {
    let c = Counter::new("a", "h").unwrap();
    let l = c.local();
    let (s0, x, y) = (any_u32() as f64, any_u32() as f64, any_u32() as f64);
    c.inc_by(s0);
    l.inc_by(x);
    l.inc_by(y);
    l.flush();
    assert!(c.get() == s0 + (x + y), "C12 flush adds what was accumulated");
    assert!(l.get() == 0.0);
    l.flush();
    assert!(c.get() == s0 + (x + y), "C12 a second flush adds nothing");
    l.inc_by(x);
    l.reset();
    l.flush();
    assert!(c.get() == s0 + (x + y), "C12 reset discards unflushed local data only");
    std::mem::forget(l);
    std::mem::forget(c);
    vcover!(true, "end of harness reached");
}

/// Local histogram scenario with `n` pending observations (any f64) followed by operation `op`
/// (control flow concrete, data symbolic): 0 flush twice, 1 clear then flush, 2 clone + observe on
/// the clone + drop the clone, 3 direct observe on the shared histogram, 4 drop.
fn local_hist_case(n: u8, op: u8) {
    let h = hist1();
    let l = h.local();
    let (v1, v2, w) = (any_f64(), any_f64(), any_f64());
    let mut cnt: u64 = 0;
    let mut sum = 0.0;
    let mut b: u64 = 0;
    if n >= 1 { l.observe(v1); cnt += 1; sum += v1; if v1 <= 1.0 { b += 1; } }
    if n >= 2 { l.observe(v2); cnt += 1; sum += v2; if v2 <= 1.0 { b += 1; } }
    assert!(h.get_sample_count() == 0, "C12 local observations do not reach the shared histogram before a flush");
    assert!(l.get_sample_count() == cnt && f64_same(l.get_sample_sum(), sum), "C12 local histogram accumulates its own observations");
    // expected shared state after the operation
    let (mut ec, mut es, mut eb): (u64, f64, u64) = (0, 0.0, 0);
    if op == 0 {
        l.flush();
        if cnt > 0 { ec = cnt; es = 0.0 + sum; eb = b; }
        l.flush();
        assert!(l.get_sample_count() == 0, "C12 flush leaves the local histogram empty");
    } else if op == 1 {
        l.clear();
        l.flush();
        assert!(l.get_sample_count() == 0, "C12 clear leaves the local histogram empty");
    } else if op == 2 {
        let l2 = l.clone();
        assert!(l2.get_sample_count() == 0 && l2.get_sample_sum() == 0.0, "C12 a clone starts empty");
        assert!(l.get_sample_count() == cnt, "C12 cloning does not disturb the original");
        l2.observe(w);
        drop(l2); // dropping a local histogram flushes it
        ec = 1; es = 0.0 + (0.0 + w); eb = (w <= 1.0) as u64;
        assert!(l.get_sample_count() == cnt, "C12 other handles do not disturb pending local data");
    } else if op == 3 {
        h.observe(w);
        ec = 1; es = 0.0 + w; eb = (w <= 1.0) as u64;
        assert!(l.get_sample_count() == cnt, "C12 direct updates do not disturb pending local data");
    } else if cnt > 0 {
        ec = cnt; es = 0.0 + sum; eb = b;
    }
    if op == 4 { drop(l); } else { std::mem::forget(l); }
    let p = h.core.proto();
    assert!(p.get_sample_count() == ec, "C12 shared count = direct observations + flushed batches");
    assert!(f64_same(p.get_sample_sum(), es), "C12 shared sum = direct observations + flushed batches");
    assert!(p.get_bucket()[0].cumulative_count() == eb, "C12 shared buckets = direct observations + flushed batches");
    std::mem::forget(p);
    std::mem::forget(h);
}
/// Local histogram: flush (twice) and clear, with 0, 1 and 2 pending observations.
#[cfg_attr(kani, kani::proof, kani::unwind(4))]
pub fn c12_local_histogram_flush_and_clear() {
    local_hist_case(0, 0);
    local_hist_case(1, 0);
    local_hist_case(2, 0);
    local_hist_case(2, 1);
    vcover!(true, "end of harness reached");
}
/// Local histogram: clone starts empty and flushes on drop; direct observes are independent.
#[cfg_attr(kani, kani::proof, kani::unwind(4))]
pub fn c12_local_histogram_clone_and_direct() {
    local_hist_case(1, 2);
    local_hist_case(2, 3);
    vcover!(true, "end of harness reached");
}
/// Local histogram: dropping flushes (0, 1, 2 pending observations).
#[cfg_attr(kani, kani::proof, kani::unwind(4))]
pub fn c12_local_histogram_drop_flushes() {
    local_hist_case(0, 4);
    local_hist_case(1, 4);
    local_hist_case(2, 4);
    vcover!(true, "end of harness reached");
}

/// Quick forms (one scenario each; the full sets above are the thorough tier).
#[cfg_attr(kani, kani::proof, kani::unwind(4))]
pub fn c12_local_histogram_flush_twice_quick() {
    local_hist_case(1, 0);
    vcover!(true, "end of harness reached");
}
#[cfg_attr(kani, kani::proof, kani::unwind(4))]
pub fn c12_local_histogram_clone_quick() {
    local_hist_case(1, 2);
    vcover!(true, "end of harness reached");
}
#[cfg_attr(kani, kani::proof, kani::unwind(4))]
pub fn c12_local_histogram_drop_quick() {
    local_hist_case(1, 4);
    vcover!(true, "end of harness reached");
}

pub fn dispatch(name: &str) -> Option<fn()> {
    Some(match name {
        "c12_int_counter_two_locals_two_ops" => c12_int_counter_two_locals_two_ops,
        "c12_float_counter_flush_twice" => c12_float_counter_flush_twice,
        "c12_local_histogram_flush_and_clear" => c12_local_histogram_flush_and_clear,
        "c12_local_histogram_flush_twice_quick" => c12_local_histogram_flush_twice_quick,
        "c12_local_histogram_clone_quick" => c12_local_histogram_clone_quick,
        "c12_local_histogram_drop_quick" => c12_local_histogram_drop_quick,
        "c12_local_histogram_clone_and_direct" => c12_local_histogram_clone_and_direct,
        "c12_local_histogram_drop_flushes" => c12_local_histogram_drop_flushes,
        _ => return None,
    })
}
