//! C07 — gather() is complete, canonically ordered and deterministic; and
//! C14 — a gathered family never mixes metric types.
//! Hosted in `crate::registry`. The registry's maps are the abstract finite map with
//! **symbolic iteration order** (E6): "every hash seed" is a solver variable.
use crate::verif_incrate::common::*;
use super::*;
use crate::counter::{Counter, IntCounter, IntCounterVec};
use crate::gauge::Gauge;
use crate::metrics::Opts;
use crate::proto::MetricType;

fn same_pairs(a: &[proto::LabelPair], b: &[proto::LabelPair]) -> bool {
    if a.len() != b.len() {
        return false;
    }
    let mut i = 0;
    while i < a.len() {
        if a[i].name() != b[i].name() || a[i].value() != b[i].value() {
            return false;
        }
        i += 1;
    }
    true
}
/// field-by-field equality of two gather() results (the fields the exposition uses)
fn same_gather(g1: &[proto::MetricFamily], g2: &[proto::MetricFamily]) -> bool {
    if g1.len() != g2.len() {
        return false;
    }
    let mut i = 0;
    while i < g1.len() {
        let (a, b) = (&g1[i], &g2[i]);
        if a.name() != b.name() || a.help() != b.help() || a.get_field_type() != b.get_field_type() {
            return false;
        }
        let (ma, mb) = (a.get_metric(), b.get_metric());
        if ma.len() != mb.len() {
            return false;
        }
        let mut j = 0;
        while j < ma.len() {
            if !same_pairs(ma[j].get_label(), mb[j].get_label()) {
                return false;
            }
            if ma[j].get_counter().get_value().to_bits() != mb[j].get_counter().get_value().to_bits()
                || ma[j].get_gauge().get_value().to_bits() != mb[j].get_gauge().get_value().to_bits()
            {
                return false;
            }
            j += 1;
        }
        i += 1;
    }
    true
}

/// Three single-metric collectors (counter "b", gauge "a", int counter "c"), registered in a
/// symbolic order, collector-map iteration order symbolic: one family per name, strictly
/// increasing names, declared help and type, real values.
#[cfg_attr(kani, kani::proof, kani::unwind(6),
    kani::stub(std::fmt::format, fmt_stub),
    kani::stub(crate::desc::Desc::new, cheap_desc_fresh_ids))]
pub fn c07_families_sorted_complete_any_order() {
    crate::verif_map::set_symbolic_order(true);
    let b = Counter::with_opts(Opts::new("b", "hb")).unwrap();
    let a = Gauge::with_opts(Opts::new("a", "ha")).unwrap();
    let c = IntCounter::with_opts(Opts::new("c", "hc")).unwrap();
    let (x, y, z) = (any_u8(), any_u8(), any_u8());
    b.inc_by(x as f64);
    a.set(y as f64);
    c.inc_by(z as u64);
    let mut core = RegistryCore::default();
    let ord = any_u8();
    assume(ord < 3);
    if ord == 0 {
        core.register(Box::new(b.clone())).unwrap();
        core.register(Box::new(a.clone())).unwrap();
        core.register(Box::new(c.clone())).unwrap();
    } else if ord == 1 {
        core.register(Box::new(c.clone())).unwrap();
        core.register(Box::new(b.clone())).unwrap();
        core.register(Box::new(a.clone())).unwrap();
    } else {
        core.register(Box::new(a.clone())).unwrap();
        core.register(Box::new(c.clone())).unwrap();
        core.register(Box::new(b.clone())).unwrap();
    }
    let g = core.gather();
    assert!(g.len() == 3, "C07 one family per registered metric name with samples");
    assert!(g[0].name() == "a" && g[1].name() == "b" && g[2].name() == "c", "C07 families in strictly increasing name order");
    assert!(g[0].help() == "ha" && g[0].get_field_type() == MetricType::GAUGE, "C07 declared help and type");
    assert!(g[1].help() == "hb" && g[1].get_field_type() == MetricType::COUNTER, "C07 declared help and type");
    assert!(g[2].help() == "hc" && g[2].get_field_type() == MetricType::COUNTER, "C07 declared help and type");
    assert!(g[0].get_metric().len() == 1 && g[0].get_metric()[0].get_gauge().get_value() == y as f64, "C07 every sample exactly once with its value");
    assert!(g[1].get_metric().len() == 1 && g[1].get_metric()[0].get_counter().get_value() == x as f64, "C07 every sample exactly once with its value");
    assert!(g[2].get_metric().len() == 1 && g[2].get_metric()[0].get_counter().get_value() == z as f64, "C07 every sample exactly once with its value");
    std::mem::forget(g);
    std::mem::forget(core);
}

/// Registry prefix and two common labels: applied to every family and sample, and the result does
/// not depend on the iteration order of the label map (gathered twice, the order re-drawn).
#[cfg_attr(kani, kani::proof, kani::unwind(6),
    kani::stub(crate::desc::Desc::new, cheap_desc_fresh_ids))]
pub fn c07_prefix_and_common_labels_deterministic() {
    crate::verif_map::set_symbolic_order(true);
    let a = Counter::with_opts(Opts::new("a", "ha").const_label("k", "v")).unwrap();
    a.inc_by(2.0);
    let mut core = RegistryCore::default();
    let mut labels = HashMap::new();
    if any_bool() {
        labels.insert(String::from("l1"), String::from("1"));
        labels.insert(String::from("l2"), String::from("2"));
    } else {
        labels.insert(String::from("l2"), String::from("2"));
        labels.insert(String::from("l1"), String::from("1"));
    }
    core.labels = Some(labels);
    core.prefix = Some(String::from("p"));
    core.register(Box::new(a.clone())).unwrap();
    let g1 = core.gather();
    if let Some(l) = core.labels.as_mut() {
        l.redraw_order();
    }
    let g2 = core.gather();
    assert!(g1.len() == 1 && g1[0].name() == "p_a", "C07 registry prefix applied to every family");
    let lp = g1[0].get_metric()[0].get_label();
    assert!(lp.len() == 3, "C07 common labels applied to every sample");
    let has = |n: &str, v: &str| {
        let mut i = 0;
        let mut f = false;
        while i < lp.len() {
            if lp[i].name() == n && lp[i].value() == v { f = true; }
            i += 1;
        }
        f
    };
    assert!(has("k", "v") && has("l1", "1") && has("l2", "2"), "C07 own and common labels all present");
    assert!(same_gather(&g1, &g2), "C07 gather() is the same for every hash seed (map iteration order)");
    std::mem::forget(g1);
    std::mem::forget(g2);
    std::mem::forget(core);
}

/// Two same-kind collectors under one name (distinct const-label values): merged into one
/// family, samples ordered by label values, independent of registration / iteration order.
#[cfg_attr(kani, kani::proof, kani::unwind(6),
    kani::stub(std::fmt::format, fmt_stub),
    kani::stub(crate::desc::Desc::new, cheap_desc_fresh_ids))]
pub fn c07_same_name_samples_sorted_by_label_values() {
    crate::verif_map::set_symbolic_order(true);
    let c1 = Counter::with_opts(Opts::new("a", "h").const_label("l", "1")).unwrap();
    let c2 = Counter::with_opts(Opts::new("a", "h").const_label("l", "2")).unwrap();
    let (x, y) = (any_u8(), any_u8());
    assume(x != 0 && y != 0);
    c1.inc_by(x as f64);
    c2.inc_by(y as f64);
    let mut core = RegistryCore::default();
    if any_bool() {
        core.register(Box::new(c1.clone())).unwrap();
        core.register(Box::new(c2.clone())).unwrap();
    } else {
        core.register(Box::new(c2.clone())).unwrap();
        core.register(Box::new(c1.clone())).unwrap();
    }
    let g = core.gather();
    assert!(g.len() == 1 && g[0].get_field_type() == MetricType::COUNTER, "C07/C14 one family of the declared type");
    let ms = g[0].get_metric();
    assert!(ms.len() == 2, "C07 every sample of every collector registered under the name exactly once");
    assert!(ms[0].get_label()[0].value() == "1" && ms[1].get_label()[0].value() == "2", "C07 samples ordered lexicographically by label values");
    assert!(ms[0].get_counter().get_value() == x as f64 && ms[1].get_counter().get_value() == y as f64, "C14 every sample carries its real value under the family's type");
    std::mem::forget(g);
    std::mem::forget(core);
}

/// C14: a counter and a gauge that share name, help and label names but differ in const-label
/// values are both admitted. Every sample of the gathered family must carry a value of the
/// family's declared type, and the declared type must not depend on iteration order.
#[cfg_attr(kani, kani::proof, kani::unwind(6),
    kani::stub(std::fmt::format, fmt_stub),
    kani::stub(crate::desc::Desc::new, cheap_desc_fresh_ids))]
pub fn c14_counter_and_gauge_under_one_name() {
    crate::verif_map::set_symbolic_order(true);
    let c = Counter::with_opts(Opts::new("a", "h").const_label("l", "1")).unwrap();
    let g_ = Gauge::with_opts(Opts::new("a", "h").const_label("l", "2")).unwrap();
    let (x, y) = (any_u8(), any_u8());
    assume(x != 0 && y != 0);
    c.inc_by(x as f64);
    g_.set(y as f64);
    let mut core = RegistryCore::default();
    let r1 = core.register(Box::new(c.clone()));
    let r2 = core.register(Box::new(g_.clone()));
    if r1.is_ok() && r2.is_ok() {
        let g = core.gather();
        let mut i = 0;
        while i < g.len() {
            let ty = g[i].get_field_type();
            let ms = g[i].get_metric();
            let mut j = 0;
            while j < ms.len() {
                let real = if ms[j].get_label()[0].value() == "1" { x as f64 } else { y as f64 };
                let shown = if ty == MetricType::COUNTER { ms[j].get_counter().get_value() } else { ms[j].get_gauge().get_value() };
                assert!(shown == real, "C14 every sample carries a value of the family's declared type");
                j += 1;
            }
            i += 1;
        }
        std::mem::forget(g);
    }
    std::mem::forget(core);
}

pub fn dispatch(name: &str) -> Option<fn()> {
    Some(match name {
        "c07_families_sorted_complete_any_order" => c07_families_sorted_complete_any_order,
        "c07_prefix_and_common_labels_deterministic" => c07_prefix_and_common_labels_deterministic,
        "c07_same_name_samples_sorted_by_label_values" => c07_same_name_samples_sorted_by_label_values,
        "c14_counter_and_gauge_under_one_name" => c14_counter_and_gauge_under_one_name,
        _ => return None,
    })
}
