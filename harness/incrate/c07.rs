//! C07 — gather() is complete, canonically ordered and deterministic; and
//! C14 — a gathered family never mixes metric types.
//! Hosted in `crate::registry`. The registry's maps are the abstract finite map (E6); iteration
//! orders (= registration orders / hash seeds) are enumerated explicitly.
use crate::verif_incrate::common::*;
use super::*;
use crate::desc::Desc;
use crate::proto::MetricType;

fn same_pairs(a: &[proto::LabelPair], b: &[proto::LabelPair]) -> bool {
    if a.len() != b.len() {
        return false;
    }
    let mut i = 0;
    while i < a.len() {
        if a[i].name() != b[i].name() || a[i].value() != b[i].value() {
            return false;
        }
        i += 1;
    }
    true
}
/// field-by-field equality of two gather() results (the fields the exposition uses)
fn same_gather(g1: &[proto::MetricFamily], g2: &[proto::MetricFamily]) -> bool {
    if g1.len() != g2.len() {
        return false;
    }
    let mut i = 0;
    while i < g1.len() {
        let (a, b) = (&g1[i], &g2[i]);
        if a.name() != b.name() || a.help() != b.help() || a.get_field_type() != b.get_field_type() {
            return false;
        }
        let (ma, mb) = (a.get_metric(), b.get_metric());
        if ma.len() != mb.len() {
            return false;
        }
        let mut j = 0;
        while j < ma.len() {
            if !same_pairs(ma[j].get_label(), mb[j].get_label()) {
                return false;
            }
            if ma[j].get_counter().get_value().to_bits() != mb[j].get_counter().get_value().to_bits()
                || ma[j].get_gauge().get_value().to_bits() != mb[j].get_gauge().get_value().to_bits()
            {
                return false;
            }
            j += 1;
        }
        i += 1;
    }
    true
}

/// a collector that returns literal families (fresh from constants, so that every length stays
/// concrete for the model checker); `gather`'s own logic — merge by name, drop empty families,
/// sort samples, prefix, common labels — is the subject, and it is driven unchanged
struct Lit {
    desc: Desc,
    fams: fn(u8, u8) -> Vec<proto::MetricFamily>,
    x: u8,
    y: u8,
}
impl Collector for Lit {
    fn desc(&self) -> Vec<&Desc> { vec![&self.desc] }
    fn collect(&self) -> Vec<proto::MetricFamily> { (self.fams)(self.x, self.y) }
}
fn d(name: &str, id: u64) -> Desc {
    Desc { fq_name: String::from(name), help: String::from("h"), const_label_pairs: Vec::new(), variable_labels: Vec::new(), id, dim_hash: 7 }
}
fn lp(n: &str, v: &str) -> proto::LabelPair {
    let mut l = proto::LabelPair::default();
    l.set_name(String::from(n));
    l.set_value(String::from(v));
    l
}
fn counter_metric(labels: Vec<proto::LabelPair>, v: u8) -> proto::Metric {
    let mut m = proto::Metric::from_label(labels);
    let mut c = proto::Counter::default();
    c.set_value(v as f64);
    m.set_counter(c);
    m
}
fn gauge_metric(labels: Vec<proto::LabelPair>, v: u8) -> proto::Metric {
    let mut m = proto::Metric::from_label(labels);
    let mut g = proto::Gauge::default();
    g.set_value(v as f64);
    m.set_gauge(g);
    m
}
fn fam(name: &str, help: &str, ty: MetricType, ms: Vec<proto::Metric>) -> proto::MetricFamily {
    let mut mf = proto::MetricFamily::default();
    mf.set_name(String::from(name));
    mf.set_help(String::from(help));
    mf.set_field_type(ty);
    mf.set_metric(ms);
    mf
}
fn fam_b(x: u8, _y: u8) -> Vec<proto::MetricFamily> { vec![fam("b", "hb", MetricType::COUNTER, vec![counter_metric(Vec::new(), x)])] }
fn fam_a(x: u8, _y: u8) -> Vec<proto::MetricFamily> { vec![fam("a", "ha", MetricType::GAUGE, vec![gauge_metric(Vec::new(), x)])] }
fn fam_c_empty(_x: u8, _y: u8) -> Vec<proto::MetricFamily> { vec![fam("c", "hc", MetricType::COUNTER, Vec::new())] }
/// a vector-like collector: one family "v" with two children, emitted in the order (l=2, l=1)
fn fam_v21(x: u8, y: u8) -> Vec<proto::MetricFamily> {
    vec![fam("v", "hv", MetricType::COUNTER, vec![counter_metric(vec![lp("l", "2")], y), counter_metric(vec![lp("l", "1")], x)])]
}
fn fam_v3(x: u8, _y: u8) -> Vec<proto::MetricFamily> {
    vec![fam("v", "hv", MetricType::COUNTER, vec![counter_metric(vec![lp("l", "3")], x)])]
}
fn fam_k(x: u8, _y: u8) -> Vec<proto::MetricFamily> {
    vec![fam("a", "ha", MetricType::COUNTER, vec![counter_metric(vec![lp("k", "v")], x)])]
}
fn fam_a_counter_l1(x: u8, _y: u8) -> Vec<proto::MetricFamily> {
    vec![fam("a", "h", MetricType::COUNTER, vec![counter_metric(vec![lp("l", "1")], x)])]
}
fn fam_a_gauge_l2(x: u8, _y: u8) -> Vec<proto::MetricFamily> {
    vec![fam("a", "h", MetricType::GAUGE, vec![gauge_metric(vec![lp("l", "2")], x)])]
}

/// the registry's maps iterate in insertion order here (symbolic order off); "every registration
/// order / every hash seed" is covered by enumerating the insertion orders explicitly, which keeps
/// the dynamic dispatch over collectors concrete (a symbolic order over `Box<dyn Collector>` did
/// not finish)
fn reg3(order: u8, x: u8, y: u8) -> RegistryCore {
    let mut core = RegistryCore::default();
    let b = || Box::new(Lit { desc: d("b", 1), fams: fam_b, x, y: 0 }) as Box<dyn Collector>;
    let a = || Box::new(Lit { desc: d("a", 2), fams: fam_a, x: y, y: 0 }) as Box<dyn Collector>;
    let c = || Box::new(Lit { desc: d("c", 4), fams: fam_c_empty, x: 0, y: 0 }) as Box<dyn Collector>;
    match order {
        0 => { core.register(b()).unwrap(); core.register(a()).unwrap(); core.register(c()).unwrap(); }
        1 => { core.register(a()).unwrap(); core.register(c()).unwrap(); core.register(b()).unwrap(); }
        _ => { core.register(c()).unwrap(); core.register(b()).unwrap(); core.register(a()).unwrap(); }
    }
    core
}
fn check3(g: &[proto::MetricFamily], x: u8, y: u8) {
    assert!(g.len() == 2, "C07 one family per registered metric name that currently has samples");
    assert!(g[0].name() == "a" && g[1].name() == "b", "C07 families in strictly increasing name order");
    assert!(g[0].help() == "ha" && g[0].get_field_type() == MetricType::GAUGE, "C07 declared help and type");
    assert!(g[1].help() == "hb" && g[1].get_field_type() == MetricType::COUNTER, "C07 declared help and type");
    assert!(g[0].get_metric().len() == 1 && g[0].get_metric()[0].get_gauge().get_value() == y as f64, "C07 every sample exactly once with its value");
    assert!(g[1].get_metric().len() == 1 && g[1].get_metric()[0].get_counter().get_value() == x as f64, "C07 every sample exactly once with its value");
}
/// Three collectors (counter "b", gauge "a", a vector "c" without children) in three different
/// registration (= iteration) orders: one family per name with samples, strictly increasing
/// names, declared help and type, real values; the empty family is dropped; same result.
#[cfg_attr(kani, kani::proof, kani::unwind(6), kani::stub(std::fmt::format, fmt_stub))]
pub fn c07_families_sorted_complete_any_order() {
    let (x, y) = (any_u8(), any_u8());
    let c0 = reg3(0, x, y);
    let g0 = c0.gather();
    check3(&g0, x, y);
    let c1 = reg3(1, x, y);
    let g1 = c1.gather();
    check3(&g1, x, y);
    let c2 = reg3(2, x, y);
    let g2 = c2.gather();
    check3(&g2, x, y);
    assert!(same_gather(&g0, &g1) && same_gather(&g0, &g2), "C07 the result is the same for every registration order");
    std::mem::forget((g0, g1, g2));
    std::mem::forget((c0, c1, c2));
    vcover!(true, "end of harness reached");
}

fn reg_labels(first_l1: bool, x: u8) -> RegistryCore {
    let mut core = RegistryCore::default();
    let mut labels = HashMap::new();
    if first_l1 {
        labels.insert(String::from("l1"), String::from("1"));
        labels.insert(String::from("l2"), String::from("2"));
    } else {
        labels.insert(String::from("l2"), String::from("2"));
        labels.insert(String::from("l1"), String::from("1"));
    }
    core.labels = Some(labels);
    core.prefix = Some(String::from("p"));
    core.register(Box::new(Lit { desc: d("a", 1), fams: fam_k, x, y: 0 })).unwrap();
    core
}
/// Registry prefix and two common labels: applied to every family and sample, and the result does
/// not depend on the iteration order of the label map (both orders of a 2-entry map).
#[cfg_attr(kani, kani::proof, kani::unwind(6))]
pub fn c07_prefix_and_common_labels_deterministic() {
    let x = any_u8();
    let c1 = reg_labels(true, x);
    let g1 = c1.gather();
    let c2 = reg_labels(false, x);
    let g2 = c2.gather();
    assert!(g1.len() == 1 && g1[0].name() == "p_a", "C07 registry prefix applied to every family");
    let lps = g1[0].get_metric()[0].get_label();
    assert!(lps.len() == 3, "C07 common labels applied to every sample");
    let has = |n: &str, v: &str| {
        let mut i = 0;
        let mut f = false;
        while i < lps.len() {
            if lps[i].name() == n && lps[i].value() == v { f = true; }
            i += 1;
        }
        f
    };
    assert!(has("k", "v") && has("l1", "1") && has("l2", "2"), "C07 own and common labels all present");
    assert!(same_gather(&g1, &g2), "C07 gather() is the same for every hash seed (map iteration order)");
    std::mem::forget((g1, g2));
    std::mem::forget((c1, c2));
    vcover!(true, "end of harness reached");
}

fn reg_same_name(first_v21: bool, x: u8, y: u8, z: u8) -> RegistryCore {
    let mut core = RegistryCore::default();
    let v21 = || Box::new(Lit { desc: d("v", 1), fams: fam_v21, x, y }) as Box<dyn Collector>;
    let v3 = || Box::new(Lit { desc: d("v", 2), fams: fam_v3, x: z, y: 0 }) as Box<dyn Collector>;
    if first_v21 { core.register(v21()).unwrap(); core.register(v3()).unwrap(); } else { core.register(v3()).unwrap(); core.register(v21()).unwrap(); }
    core
}
fn check_same_name(g: &[proto::MetricFamily], x: u8, y: u8, z: u8) {
    assert!(g.len() == 1 && g[0].get_field_type() == MetricType::COUNTER, "C07 one family of the declared type");
    let ms = g[0].get_metric();
    assert!(ms.len() == 3, "C07 every sample of every collector registered under the name exactly once");
    assert!(ms[0].get_label()[0].value() == "1" && ms[1].get_label()[0].value() == "2" && ms[2].get_label()[0].value() == "3", "C07 samples ordered lexicographically by label values");
    assert!(ms[0].get_counter().get_value() == x as f64 && ms[1].get_counter().get_value() == y as f64 && ms[2].get_counter().get_value() == z as f64, "C07 every sample carries its value");
}
/// Two collectors under one name ("v": children l=2,l=1 and l=3), both registration orders: merged
/// into one family, samples ordered lexicographically by label values, each exactly once.
#[cfg_attr(kani, kani::proof, kani::unwind(6), kani::stub(std::fmt::format, fmt_stub))]
pub fn c07_same_name_samples_sorted_by_label_values() {
    let (x, y, z) = (any_u8(), any_u8(), any_u8());
    let c1 = reg_same_name(true, x, y, z);
    let g1 = c1.gather();
    check_same_name(&g1, x, y, z);
    let c2 = reg_same_name(false, x, y, z);
    let g2 = c2.gather();
    check_same_name(&g2, x, y, z);
    std::mem::forget((g1, g2));
    std::mem::forget((c1, c2));
    vcover!(true, "end of harness reached");
}

fn c14_case(counter_first: bool, x: u8, y: u8) {
    let mut core = RegistryCore::default();
    let c = || Box::new(Lit { desc: d("a", 1), fams: fam_a_counter_l1, x, y: 0 }) as Box<dyn Collector>;
    let gg = || Box::new(Lit { desc: d("a", 2), fams: fam_a_gauge_l2, x: y, y: 0 }) as Box<dyn Collector>;
    let (r1, r2) = if counter_first { (core.register(c()), core.register(gg())) } else { (core.register(gg()), core.register(c())) };
    if r1.is_ok() && r2.is_ok() {
        let g = core.gather();
        let mut i = 0;
        while i < g.len() {
            let ty = g[i].get_field_type();
            let ms = g[i].get_metric();
            let mut j = 0;
            while j < ms.len() {
                let real = if ms[j].get_label()[0].value() == "1" { x as f64 } else { y as f64 };
                let shown = if ty == MetricType::COUNTER { ms[j].get_counter().get_value() } else { ms[j].get_gauge().get_value() };
                assert!(shown == real, "C14 every sample carries a value of the family's declared type");
                j += 1;
            }
            i += 1;
        }
        std::mem::forget(g);
    }
    std::mem::forget(core);
}
/// C14: a counter and a gauge that share name, help and label names but differ in const-label
/// values are both admitted (ids differ, dimension equal). Every sample of the gathered family
/// must carry a value of the family's declared type, in both registration orders.
#[cfg_attr(kani, kani::proof, kani::unwind(6), kani::stub(std::fmt::format, fmt_stub))]
pub fn c14_counter_and_gauge_under_one_name() {
    let (x, y) = (any_u8(), any_u8());
    assume(x != 0 && y != 0);
    c14_case(true, x, y);
    c14_case(false, x, y);
    vcover!(true, "end of harness reached");
}

fn fam_two_labels(x: u8, y: u8) -> Vec<proto::MetricFamily> {
    // emitted in the order ("ab","a"), ("a","c"), ("a","bc"): lexicographic order by label values is
    // ("a","bc") < ("a","c") < ("ab","a")
    vec![fam("w", "hw", MetricType::COUNTER, vec![
        counter_metric(vec![lp("l1", "ab"), lp("l2", "a")], x),
        counter_metric(vec![lp("l1", "a"), lp("l2", "c")], y),
        counter_metric(vec![lp("l1", "a"), lp("l2", "bc")], 7),
    ])]
}
/// Samples with two labels where one value is a prefix of another: ordered lexicographically by
/// the label-value *tuple* (position by position), not by any concatenation.
#[cfg_attr(kani, kani::proof, kani::unwind(6), kani::stub(std::fmt::format, fmt_stub))]
pub fn c07_two_label_samples_sorted_by_value_tuples() {
    let (x, y) = (any_u8(), any_u8());
    let mut core = RegistryCore::default();
    core.register(Box::new(Lit { desc: d("w", 1), fams: fam_two_labels, x, y })).unwrap();
    let g = core.gather();
    let ms = g[0].get_metric();
    assert!(ms.len() == 3, "C07 every sample exactly once");
    assert!(ms[0].get_label()[1].value() == "bc" && ms[0].get_counter().get_value() == 7.0, "C07 samples ordered lexicographically by label values");
    assert!(ms[1].get_label()[1].value() == "c" && ms[1].get_counter().get_value() == y as f64, "C07 samples ordered lexicographically by label values");
    assert!(ms[2].get_label()[0].value() == "ab" && ms[2].get_counter().get_value() == x as f64, "C07 samples ordered lexicographically by label values");
    std::mem::forget(g);
    std::mem::forget(core);
    vcover!(true, "end of harness reached");
}

pub fn dispatch(name: &str) -> Option<fn()> {
    Some(match name {
        "c07_families_sorted_complete_any_order" => c07_families_sorted_complete_any_order,
        "c07_prefix_and_common_labels_deterministic" => c07_prefix_and_common_labels_deterministic,
        "c07_same_name_samples_sorted_by_label_values" => c07_same_name_samples_sorted_by_label_values,
        "c07_two_label_samples_sorted_by_value_tuples" => c07_two_label_samples_sorted_by_value_tuples,
        "c14_counter_and_gauge_under_one_name" => c14_counter_and_gauge_under_one_name,
        _ => return None,
    })
}
