//! C08 — bucket counts follow `value <= upper bound` for every input.
//!
//! Symbolic: every bucket bound and every observation is an unrestricted f64 bit pattern.
//! Vec lengths are concrete (one harness per length); see DESIGN.md §3.1.
use crate::verif_incrate::common::*;
use super::*;

use crate::core::{Collector, Metric};

/// The acceptance rule of the statement: strictly increasing numbers (NaN is not a number).
fn spec_accept(b: &[f64]) -> bool {
    let mut i = 0;
    while i < b.len() {
        if b[i].is_nan() {
            return false;
        }
        if i + 1 < b.len() && !(b[i] < b[i + 1]) {
            return false;
        }
        i += 1;
    }
    true
}

fn accept_case(bounds: Vec<f64>) {
    let n = bounds.len();
    let want = spec_accept(&bounds);
    let last_inf = bounds[n - 1] == f64::INFINITY;
    let copy = bounds.clone();
    let got = check_and_adjust_buckets(bounds);
    vcover!(want, "c08.accept: accepted configuration reachable");
    vcover!(!want, "c08.accept: rejected configuration reachable");
    vcover!(want && last_inf, "c08.accept: trailing +Inf reachable");
    assert!(got.is_ok() == want, "C08 acceptance: accepted iff strictly increasing numbers");
    if let Ok(v) = &got {
        let m = if last_inf { n - 1 } else { n };
        assert!(v.len() == m, "C08 acceptance: only a trailing +Inf is dropped");
        let mut i = 0;
        while i < m {
            assert!(v[i].to_bits() == copy[i].to_bits(), "C08 acceptance: bounds kept as given");
            i += 1;
        }
    }
    std::mem::forget(got);
    std::mem::forget(copy);
}

#[cfg_attr(kani, kani::proof, kani::unwind(4), kani::stub(std::fmt::format, fmt_stub))]
pub fn c08_accept_len1() {
    accept_case(vec![any_f64()]);
    vcover!(true, "end of harness reached");
}
#[cfg_attr(kani, kani::proof, kani::unwind(5), kani::stub(std::fmt::format, fmt_stub))]
pub fn c08_accept_len2() {
    accept_case(vec![any_f64(), any_f64()]);
    vcover!(true, "end of harness reached");
}
#[cfg_attr(kani, kani::proof, kani::unwind(6), kani::stub(std::fmt::format, fmt_stub))]
pub fn c08_accept_len3() {
    accept_case(vec![any_f64(), any_f64(), any_f64()]);
    vcover!(true, "end of harness reached");
}
#[cfg_attr(kani, kani::proof, kani::unwind(14), kani::stub(std::fmt::format, fmt_stub))]
pub fn c08_accept_empty_selects_default() {
    let got = check_and_adjust_buckets(Vec::new()).unwrap();
    assert!(got.len() == 11);
    let mut i = 0;
    while i < 11 {
        assert!(got[i] == DEFAULT_BUCKETS[i]);
        i += 1;
    }
    std::mem::forget(got);
    vcover!(true, "end of harness reached");
}

/// Public constructor agrees with the rule (wiring of the unit into `Histogram::with_opts`).
#[cfg_attr(kani, kani::proof, kani::unwind(5),
    kani::stub(std::fmt::format, fmt_stub),
    kani::stub(std::hash::RandomState::new, fixed_random_state),
    kani::stub(crate::desc::Desc::new, cheap_desc))]
pub fn c08_accept_public_len2() {
    let b = vec![any_f64(), any_f64()];
    let want = spec_accept(&b);
    let r = Histogram::with_opts(HistogramOpts::new("a", "h").buckets(b));
    assert!(r.is_ok() == want, "C08 acceptance through Histogram::with_opts");
    std::mem::forget(r);
    vcover!(true, "end of harness reached");
}

fn cum(v: &[f64], b: f64) -> u64 {
    let mut c = 0;
    let mut i = 0;
    while i < v.len() {
        if v[i] <= b {
            c += 1;
        }
        i += 1;
    }
    c
}

fn check_snapshot(h: &Histogram, bounds: &[f64], obs: &[f64], want_sum: f64) {
    let m = h.metric();
    let hp = m.get_histogram();
    assert!(hp.get_sample_count() == obs.len() as u64, "C08 count = number of observations");
    assert!(f64_same(hp.get_sample_sum(), want_sum), "C08 sum = sum in observation order");
    let bs = hp.get_bucket();
    assert!(bs.len() == bounds.len(), "C08 one bucket per accepted bound");
    let mut i = 0;
    while i < bounds.len() {
        assert!(bs[i].upper_bound().to_bits() == bounds[i].to_bits(), "C08 bucket bound reported as configured");
        assert!(bs[i].cumulative_count() == cum(obs, bounds[i]), "C08 cumulative count = #{v <= bound}");
        i += 1;
    }
    assert!(h.get_sample_count() == obs.len() as u64);
    assert!(f64_same(h.get_sample_sum(), want_sum));
    std::mem::forget(m);
}

/// Two symbolic (valid) bounds, two arbitrary observations, through `Histogram`.
#[cfg_attr(kani, kani::proof, kani::unwind(5),
    kani::stub(std::fmt::format, fmt_stub),
    kani::stub(std::hash::RandomState::new, fixed_random_state),
    kani::stub(crate::desc::Desc::new, cheap_desc))]
pub fn c08_count_2bounds_2obs() {
    let (b0, b1) = (any_f64(), any_f64());
    assume(b0 < b1 && b1 != f64::INFINITY);
    let (v0, v1) = (any_f64(), any_f64());
    let h = Histogram::with_opts(HistogramOpts::new("a", "h").buckets(vec![b0, b1])).unwrap();
    h.observe(v0);
    h.observe(v1);
    vcover!(v0.is_nan(), "c08.count: NaN observation");
    vcover!(v0 == b0, "c08.count: observation on a bound");
    vcover!(v0 > b1 && v1 <= b0, "c08.count: above all bounds / in first bucket");
    check_snapshot(&h, &[b0, b1], &[v0, v1], (0.0 + v0) + v1);
    std::mem::forget(h);
    vcover!(true, "end of harness reached");
}


/// Two symbolic bounds, one arbitrary observation.
#[cfg_attr(kani, kani::proof, kani::unwind(5),
    kani::stub(std::fmt::format, fmt_stub),
    kani::stub(std::hash::RandomState::new, fixed_random_state),
    kani::stub(crate::desc::Desc::new, cheap_desc))]
pub fn c08_count_2bounds_1obs() {
    let (b0, b1) = (any_f64(), any_f64());
    assume(b0 < b1 && b1 != f64::INFINITY);
    let v0 = any_f64();
    let h = Histogram::with_opts(HistogramOpts::new("a", "h").buckets(vec![b0, b1])).unwrap();
    h.observe(v0);
    vcover!(v0.is_nan(), "c08.count21: NaN observation");
    vcover!(v0 == b0, "c08.count21: observation on a bound");
    vcover!(v0 > b1, "c08.count21: above all bounds");
    check_snapshot(&h, &[b0, b1], &[v0], 0.0 + v0);
    std::mem::forget(h);
    vcover!(true, "end of harness reached");
}
/// One symbolic bound, two arbitrary observations (sum in observation order).
#[cfg_attr(kani, kani::proof, kani::unwind(5),
    kani::stub(std::fmt::format, fmt_stub),
    kani::stub(std::hash::RandomState::new, fixed_random_state),
    kani::stub(crate::desc::Desc::new, cheap_desc))]
pub fn c08_count_1bound_2obs() {
    let b0 = any_f64();
    assume(!b0.is_nan() && b0 != f64::INFINITY);
    let (v0, v1) = (any_f64(), any_f64());
    let h = Histogram::with_opts(HistogramOpts::new("a", "h").buckets(vec![b0])).unwrap();
    h.observe(v0);
    h.observe(v1);
    vcover!(v0.is_nan(), "c08.count12: NaN observation");
    vcover!(v0 <= b0 && v1 > b0, "c08.count12: one in, one out");
    check_snapshot(&h, &[b0], &[v0, v1], (0.0 + v0) + v1);
    std::mem::forget(h);
    vcover!(true, "end of harness reached");
}
/// Concrete bounds [1.0, 2.0], two arbitrary observations.
#[cfg_attr(kani, kani::proof, kani::unwind(5),
    kani::stub(std::fmt::format, fmt_stub),
    kani::stub(std::hash::RandomState::new, fixed_random_state),
    kani::stub(crate::desc::Desc::new, cheap_desc))]
pub fn c08_count_concrete_2obs() {
    let (v0, v1) = (any_f64(), any_f64());
    let h = Histogram::with_opts(HistogramOpts::new("a", "h").buckets(vec![1.0, 2.0])).unwrap();
    h.observe(v0);
    h.observe(v1);
    check_snapshot(&h, &[1.0, 2.0], &[v0, v1], (0.0 + v0) + v1);
    std::mem::forget(h);
    vcover!(true, "end of harness reached");
}


/// A histogram whose core is built directly from already-adjusted bounds (state constructed
/// directly, so the bucket vector's length stays concrete for the solver). The wiring
/// constructor -> core is covered by `c08_accept_public_len2` and `c08_count_concrete_2obs`.
fn hist_from_bounds(bounds: Vec<f64>) -> Histogram {
    let n = bounds.len();
    let desc = crate::desc::Desc {
        fq_name: String::from("a"),
        help: String::from("h"),
        const_label_pairs: Vec::new(),
        variable_labels: Vec::new(),
        id: 0,
        dim_hash: 0,
    };
    Histogram {
        core: Arc::new(HistogramCore {
            desc,
            label_pairs: Vec::new(),
            collect_lock: Mutex::new(()),
            shard_and_count: ShardAndCount::new(),
            shards: [Shard::new(n), Shard::new(n)],
            upper_bounds: bounds,
        }),
    }
}
#[cfg_attr(kani, kani::proof, kani::unwind(5))]
pub fn c08_core_2bounds_1obs() {
    let (b0, b1) = (any_f64(), any_f64());
    assume(b0 < b1 && b1 != f64::INFINITY);
    let v0 = any_f64();
    let h = hist_from_bounds(vec![b0, b1]);
    h.observe(v0);
    vcover!(v0.is_nan(), "c08.core21: NaN observation");
    vcover!(v0 == b0, "c08.core21: observation on a bound");
    vcover!(v0 > b1, "c08.core21: above all bounds");
    check_snapshot(&h, &[b0, b1], &[v0], 0.0 + v0);
    std::mem::forget(h);
    vcover!(true, "end of harness reached");
}
#[cfg_attr(kani, kani::proof, kani::unwind(5))]
pub fn c08_core_2bounds_2obs() {
    let (b0, b1) = (any_f64(), any_f64());
    assume(b0 < b1 && b1 != f64::INFINITY);
    let (v0, v1) = (any_f64(), any_f64());
    let h = hist_from_bounds(vec![b0, b1]);
    h.observe(v0);
    h.observe(v1);
    vcover!(v0 > b1 && v1 <= b0, "c08.core22: above all bounds / in first bucket");
    check_snapshot(&h, &[b0, b1], &[v0, v1], (0.0 + v0) + v1);
    std::mem::forget(h);
    vcover!(true, "end of harness reached");
}

/// Same through `LocalHistogram::observe` + `flush`.
#[cfg_attr(kani, kani::proof, kani::unwind(5),
    kani::stub(std::fmt::format, fmt_stub),
    kani::stub(std::hash::RandomState::new, fixed_random_state),
    kani::stub(crate::desc::Desc::new, cheap_desc))]
pub fn c08_count_local_2bounds_2obs() {
    let (b0, b1) = (any_f64(), any_f64());
    assume(b0 < b1 && b1 != f64::INFINITY);
    let (v0, v1) = (any_f64(), any_f64());
    let h = Histogram::with_opts(HistogramOpts::new("a", "h").buckets(vec![b0, b1])).unwrap();
    let l = h.local();
    l.observe(v0);
    l.observe(v1);
    l.flush();
    vcover!(v0.is_nan() || v1.is_nan(), "c08.local: NaN observation");
    check_snapshot(&h, &[b0, b1], &[v0, v1], 0.0 + ((0.0 + v0) + v1));
    std::mem::forget(l);
    std::mem::forget(h);
    vcover!(true, "end of harness reached");
}

/// `linear_buckets`: Err exactly for count == 0 or width <= 0 (documented), else start + width*i.
#[cfg_attr(kani, kani::proof, kani::unwind(5), kani::stub(std::fmt::format, fmt_stub))]
pub fn c08_linear_buckets() {
    let (start, width) = (any_f64(), any_f64());
    let count = any_usize_in(0, 4);
    let r = linear_buckets(start, width, count);
    let want_err = count < 1 || width <= 0.0;
    assert!(r.is_err() == want_err, "C08 linear_buckets error cases");
    if let Ok(v) = &r {
        assert!(v.len() == count);
        let mut i = 0;
        while i < count {
            assert!(f64_same(v[i], start + width * (i as f64)));
            i += 1;
        }
    }
    std::mem::forget(r);
    vcover!(true, "end of harness reached");
}

/// `exponential_buckets`: Err exactly for count == 0, start <= 0, factor <= 1; start and factor
/// unrestricted f64, count <= 1 (no multiplication reaches the result).
#[cfg_attr(kani, kani::proof, kani::unwind(4), kani::stub(std::fmt::format, fmt_stub))]
pub fn c08_exponential_buckets_errors() {
    let (start, factor) = (any_f64(), any_f64());
    let count = any_usize_in(0, 2);
    let r = exponential_buckets(start, factor, count);
    let want_err = count < 1 || start <= 0.0 || factor <= 1.0;
    vcover!(!want_err, "c08.exp: accepted parameters reachable");
    vcover!(factor.is_nan(), "c08.exp: NaN factor reachable");
    assert!(r.is_err() == want_err, "C08 exponential_buckets error cases");
    if let Ok(v) = &r {
        assert!(v.len() == 1 && v[0].to_bits() == start.to_bits(), "C08 exponential_buckets first bound is start");
    }
    std::mem::forget(r);
    vcover!(true, "end of harness reached");
}

/// `exponential_buckets` values: start unrestricted, factor from the pool {2, 10, 1.5}, count <= 3:
/// element i is start multiplied i times by factor.
#[cfg_attr(kani, kani::proof, kani::unwind(5), kani::stub(std::fmt::format, fmt_stub))]
pub fn c08_exponential_buckets_values() {
    let start = any_f64();
    let k = any_u8_below(3);
    let factor = if k == 0 { 2.0 } else if k == 1 { 10.0 } else { 1.5 };
    let count = any_usize_in(1, 4);
    let r = exponential_buckets(start, factor, count);
    assert!(r.is_err() == (start <= 0.0), "C08 exponential_buckets error cases");
    if let Ok(v) = &r {
        assert!(v.len() == count, "C08 exponential_buckets length");
        let mut x = start;
        let mut i = 0;
        while i < count {
            assert!(f64_same(v[i], x), "C08 exponential_buckets element i = start * factor^i");
            x *= factor;
            i += 1;
        }
    }
    std::mem::forget(r);
    vcover!(true, "end of harness reached");
}

pub fn dispatch(name: &str) -> Option<fn()> {
    Some(match name {
        "c08_accept_len1" => c08_accept_len1,
        "c08_accept_len2" => c08_accept_len2,
        "c08_accept_len3" => c08_accept_len3,
        "c08_accept_empty_selects_default" => c08_accept_empty_selects_default,
        "c08_accept_public_len2" => c08_accept_public_len2,
        "c08_count_2bounds_2obs" => c08_count_2bounds_2obs,
        "c08_core_2bounds_1obs" => c08_core_2bounds_1obs,
        "c08_core_2bounds_2obs" => c08_core_2bounds_2obs,
        "c08_count_2bounds_1obs" => c08_count_2bounds_1obs,
        "c08_count_1bound_2obs" => c08_count_1bound_2obs,
        "c08_count_concrete_2obs" => c08_count_concrete_2obs,
        "c08_count_local_2bounds_2obs" => c08_count_local_2bounds_2obs,
        "c08_linear_buckets" => c08_linear_buckets,
        "c08_exponential_buckets_errors" => c08_exponential_buckets_errors,
        "c08_exponential_buckets_values" => c08_exponential_buckets_values,
        _ => return None,
    })
}
