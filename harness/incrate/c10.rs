//! C10 — concurrent use of a metric vector is linearizable (and the vector-child clause of C01).
//! Hosted in `crate::vec` (unit access to `get_or_create_metric`).
//!
//! Interleavings at lock granularity (E3's argument, without stubbing the lock): every access to
//! the children map happens inside a critical section of the vector's RwLock, which Rust's
//! borrow rules enforce, so a multi-threaded execution is a sequence of whole critical sections.
//! The only operation with two critical sections is get-or-create: [read-lock lookup] …
//! [write-lock `get_or_create_metric`]. Each harness puts one complete operation of "another
//! thread" (create the same child and update it, create another child, remove, reset) into that
//! gap and checks that the outcome is that of some sequential order consistent with real time.
//! Label values are symbolic bytes; FNV is the injective stub (E4); the children map is E6.
use crate::verif_incrate::common::*;
use super::*;
use crate::metrics::Opts;
use crate::counter::IntCounterVec;

pub fn describe_x(_o: &Opts) -> crate::errors::Result<Desc> {
    Ok(Desc { fq_name: String::from("a"), help: String::from("h"), const_label_pairs: Vec::new(),
        variable_labels: vec![String::from("x")], id: 0, dim_hash: 0 })
}
fn vec1() -> IntCounterVec {
    IntCounterVec::new(Opts::new("a", "h"), &["x"]).unwrap()
}
fn byte() -> u8 {
    let b = any_u8();
    assume(b != 0 && b < 128);
    b
}
/// T1 looks up (miss); T2 creates a child and increments it; T1 enters the write-locked second
/// phase with its own (symbolic) label value: same value => T2's child (no update lost, one
/// child), different value => a second child.
#[cfg_attr(kani, kani::proof, kani::unwind(5),
    kani::stub(std::fmt::format, fmt_stub),
    kani::stub(<crate::metrics::Opts as crate::desc::Describer>::describe, describe_x),
    kani::stub(<fnv::FnvHasher as std::hash::Hasher>::write, fnv_write_injective),
    kani::stub(<[crate::proto::LabelPair]>::sort, sort_stub),
    kani::stub(parking_lot::RawRwLock::lock_exclusive_slow, pl_lock_exclusive_slow),
    kani::stub(parking_lot::RawRwLock::lock_shared_slow, pl_lock_shared_slow),
    kani::stub(parking_lot::RawRwLock::unlock_exclusive_slow, pl_unlock_exclusive_slow),
    kani::stub(parking_lot::RawRwLock::unlock_shared_slow, pl_unlock_shared_slow))]
pub fn c10_racing_first_requests_share_the_child() {
    let v = vec1();
    let (a, b) = ([byte()], [byte()]);
    let (sa, sb) = (unsafe { std::str::from_utf8_unchecked(&a) }, unsafe { std::str::from_utf8_unchecked(&b) });
    let ha = v.v.hash_label_values(&[sa]).unwrap();
    // T1: phase one under the read lock: miss
    assert!(v.v.children.read().get(&ha).is_none());
    // T2: complete get-or-create + update
    let c2 = v.get_metric_with_label_values(&[sb]).unwrap();
    c2.inc();
    // T1: phase two under the write lock
    let c1 = v.v.get_or_create_metric(ha, &[sa]).unwrap();
    c1.inc();
    let same = a[0] == b[0];
    vcover!(same, "c10.race: both threads asked for the same label values");
    assert!(c2.get() == if same { 2 } else { 1 }, "C10 simultaneous first requests for the same label values yield the same child: no update is lost");
    assert!(v.v.children.read().len() == if same { 1 } else { 2 }, "C10 a collection never shows the same label values twice");
    let again = v.get_metric_with_label_values(&[sa]).unwrap();
    assert!(again.get() == c1.get(), "C10 later requests see the child that holds the updates");
    std::mem::forget((c1, c2, again));
    std::mem::forget(v);
    vcover!(true, "end of harness reached");
}

fn remove_case(reset: bool) {
    let v = vec1();
    let a = [byte()];
    let sa = unsafe { std::str::from_utf8_unchecked(&a) };
    let c1 = v.get_metric_with_label_values(&[sa]).unwrap();
    c1.inc();
    if reset {
        v.reset();
    } else {
        assert!(v.remove_label_values(&[sa]).is_ok(), "C10 removing an existing child succeeds");
    }
    assert!(v.v.children.read().len() == 0, "C10 a removed child no longer appears in collections");
    c1.inc();
    assert!(c1.get() == 2, "C10 handles to a removed child stay usable");
    let c2 = v.get_metric_with_label_values(&[sa]).unwrap();
    assert!(c2.get() == 0, "C10 a child requested again after removal starts from zero");
    std::mem::forget((c1, c2));
    std::mem::forget(v);
}
/// T1 holds a handle; T2 removes the child; the handle stays usable, the child no longer appears,
/// and a new request starts from zero.
#[cfg_attr(kani, kani::proof, kani::unwind(5),
    kani::stub(std::fmt::format, fmt_stub),
    kani::stub(<crate::metrics::Opts as crate::desc::Describer>::describe, describe_x),
    kani::stub(<fnv::FnvHasher as std::hash::Hasher>::write, fnv_write_injective),
    kani::stub(<[crate::proto::LabelPair]>::sort, sort_stub),
    kani::stub(parking_lot::RawRwLock::lock_exclusive_slow, pl_lock_exclusive_slow),
    kani::stub(parking_lot::RawRwLock::lock_shared_slow, pl_lock_shared_slow),
    kani::stub(parking_lot::RawRwLock::unlock_exclusive_slow, pl_unlock_exclusive_slow),
    kani::stub(parking_lot::RawRwLock::unlock_shared_slow, pl_unlock_shared_slow))]
pub fn c10_remove_then_recreate_starts_from_zero() {
    remove_case(false);
    vcover!(true, "end of harness reached");
}
/// Same with reset() instead of remove.
#[cfg_attr(kani, kani::proof, kani::unwind(5),
    kani::stub(std::fmt::format, fmt_stub),
    kani::stub(<crate::metrics::Opts as crate::desc::Describer>::describe, describe_x),
    kani::stub(<fnv::FnvHasher as std::hash::Hasher>::write, fnv_write_injective),
    kani::stub(<[crate::proto::LabelPair]>::sort, sort_stub),
    kani::stub(parking_lot::RawRwLock::lock_exclusive_slow, pl_lock_exclusive_slow),
    kani::stub(parking_lot::RawRwLock::lock_shared_slow, pl_lock_shared_slow),
    kani::stub(parking_lot::RawRwLock::unlock_exclusive_slow, pl_unlock_exclusive_slow),
    kani::stub(parking_lot::RawRwLock::unlock_shared_slow, pl_unlock_shared_slow))]
pub fn c10_reset_then_recreate_starts_from_zero() {
    remove_case(true);
    vcover!(true, "end of harness reached");
}

/// T1 looks up (hit is impossible: T2 removed the child in the gap) — T1: read-lock hit returns
/// the old child even if T2 removes it right afterwards (linearized before the removal); and a
/// miss followed by T2's remove+recreate returns T2's new child.
#[cfg_attr(kani, kani::proof, kani::unwind(5),
    kani::stub(std::fmt::format, fmt_stub),
    kani::stub(<crate::metrics::Opts as crate::desc::Describer>::describe, describe_x),
    kani::stub(<fnv::FnvHasher as std::hash::Hasher>::write, fnv_write_injective),
    kani::stub(<[crate::proto::LabelPair]>::sort, sort_stub),
    kani::stub(parking_lot::RawRwLock::lock_exclusive_slow, pl_lock_exclusive_slow),
    kani::stub(parking_lot::RawRwLock::lock_shared_slow, pl_lock_shared_slow),
    kani::stub(parking_lot::RawRwLock::unlock_exclusive_slow, pl_unlock_exclusive_slow),
    kani::stub(parking_lot::RawRwLock::unlock_shared_slow, pl_unlock_shared_slow))]
pub fn c10_lookup_vs_remove_and_recreate() {
    let v = vec1();
    let a = [byte()];
    let sa = unsafe { std::str::from_utf8_unchecked(&a) };
    let ha = v.v.hash_label_values(&[sa]).unwrap();
    // T1 phase one: miss
    assert!(v.v.children.read().get(&ha).is_none());
    // T2: create, update, remove, create again, update
    let c_old = v.get_metric_with_label_values(&[sa]).unwrap();
    c_old.inc();
    v.remove_label_values(&[sa]).unwrap();
    let c_new = v.get_metric_with_label_values(&[sa]).unwrap();
    c_new.inc_by(5);
    // T1 phase two
    let c1 = v.v.get_or_create_metric(ha, &[sa]).unwrap();
    assert!(c1.get() == 5, "C10 get-or-create returns the child currently in the vector");
    assert!(v.v.children.read().len() == 1, "C10 a collection never shows the same label values twice");
    std::mem::forget((c_old, c_new, c1));
    std::mem::forget(v);
    vcover!(true, "end of harness reached");
}

/// Removing label values that have no child is an error and changes nothing.
#[cfg_attr(kani, kani::proof, kani::unwind(5),
    kani::stub(std::fmt::format, fmt_stub),
    kani::stub(<crate::metrics::Opts as crate::desc::Describer>::describe, describe_x),
    kani::stub(<fnv::FnvHasher as std::hash::Hasher>::write, fnv_write_injective),
    kani::stub(<[crate::proto::LabelPair]>::sort, sort_stub),
    kani::stub(parking_lot::RawRwLock::lock_exclusive_slow, pl_lock_exclusive_slow),
    kani::stub(parking_lot::RawRwLock::lock_shared_slow, pl_lock_shared_slow),
    kani::stub(parking_lot::RawRwLock::unlock_exclusive_slow, pl_unlock_exclusive_slow),
    kani::stub(parking_lot::RawRwLock::unlock_shared_slow, pl_unlock_shared_slow))]
pub fn c10_remove_missing_child_is_an_error() {
    let v = vec1();
    let a = [byte()];
    let sa = unsafe { std::str::from_utf8_unchecked(&a) };
    let r = v.remove_label_values(&[sa]);
    assert!(r.is_err(), "C10 removing a missing child is an error");
    assert!(v.v.children.read().len() == 0);
    std::mem::forget(r);
    std::mem::forget(v);
    vcover!(true, "end of harness reached");
}

pub fn dispatch(name: &str) -> Option<fn()> {
    Some(match name {
        "c10_racing_first_requests_share_the_child" => c10_racing_first_requests_share_the_child,
        "c10_remove_then_recreate_starts_from_zero" => c10_remove_then_recreate_starts_from_zero,
        "c10_remove_missing_child_is_an_error" => c10_remove_missing_child_is_an_error,
        "c10_reset_then_recreate_starts_from_zero" => c10_reset_then_recreate_starts_from_zero,
        "c10_lookup_vs_remove_and_recreate" => c10_lookup_vs_remove_and_recreate,
        _ => return None,
    })
}
