//! C05 (second file) — get-or-create through the public API and what a child exposes.
//! Hosted in `crate::counter` (access to a child's `Value`); `MetricVecCore` is pub(crate).
use crate::verif_incrate::common::*;
use super::*;
use crate::metrics::Opts;
use crate::vec::*;

/// `Opts::describe` -> the descriptor of the vector used below, built from literals (keeps
/// every length a constant for the model checker; what `Desc::new` makes of options is C09/C15).
pub fn describe_yx(_o: &Opts) -> crate::errors::Result<Desc> {
    Ok(Desc { fq_name: String::from("a"), help: String::from("h"), const_label_pairs: Vec::new(),
        variable_labels: vec![String::from("y"), String::from("x")], id: 0, dim_hash: 0 })
}

/// Get-or-create through the public API: two requests whose values are 1-byte symbolic strings
/// (lengths concrete; the length / boundary cases are decided by the child-key harnesses):
/// an update through the first handle is visible through the second exactly when the tuples are
/// equal; the child holds exactly the requested values under the declared names, sorted by
/// name; a fresh child starts at 0; exactly one child per distinct tuple.
#[cfg_attr(kani, kani::proof, kani::unwind(5),
    kani::stub(std::fmt::format, fmt_stub),
    kani::stub(<crate::metrics::Opts as crate::desc::Describer>::describe, describe_yx),
    kani::stub(<fnv::FnvHasher as std::hash::Hasher>::write, fnv_write_injective),
    kani::stub(<[crate::proto::LabelPair]>::sort, sort_stub),
    kani::stub(parking_lot::RawRwLock::lock_exclusive_slow, pl_lock_exclusive_slow),
    kani::stub(parking_lot::RawRwLock::lock_shared_slow, pl_lock_shared_slow),
    kani::stub(parking_lot::RawRwLock::unlock_exclusive_slow, pl_unlock_exclusive_slow),
    kani::stub(parking_lot::RawRwLock::unlock_shared_slow, pl_unlock_shared_slow))]
pub fn c05_get_or_create_two_requests() {
    // declared label order ["y", "x"]: sorted exposition order differs from declaration order
    let v = IntCounterVec::new(Opts::new("a", "h"), &["y", "x"]).unwrap();
    let b = [any_u8(), any_u8(), any_u8(), any_u8()];
    assume(b[0] != 0 && b[0] < 128 && b[1] != 0 && b[1] < 128 && b[2] != 0 && b[2] < 128 && b[3] != 0 && b[3] < 128);
    let s = |i: usize| unsafe { std::str::from_utf8_unchecked(&b[i..i + 1]) };
    let (a1, a2, b1, b2) = (s(0), s(1), s(2), s(3));
    let ca = v.get_metric_with_label_values(&[a1, a2]).unwrap();
    assert!(ca.get() == 0, "C05 a fresh child starts from zero");
    ca.inc();
    let cb = v.get_metric_with_label_values(&[b1, b2]).unwrap();
    let same = b[0] == b[2] && b[1] == b[3];
    vcover!(same, "c05.goc: second request hits the existing child");
    vcover!(!same && b[0] == b[3] && b[1] == b[2], "c05.goc: swapped values are a different child");
    assert!((cb.get() == 1) == same, "C05 same child exactly when label values are equal position by position");
    let lp = &cb.v.label_pairs;
    assert!(lp.len() == 2, "C05 child exposes one pair per declared label");
    assert!(lp[0].name() == "x" && lp[0].value().as_bytes()[0] == b[3], "C05 child exposes the requested value under its declared name (pairs sorted by name)");
    assert!(lp[1].name() == "y" && lp[1].value().as_bytes()[0] == b[2], "C05 child exposes the requested value under its declared name (pairs sorted by name)");
    assert!(v.v.children.read().len() == if same { 1 } else { 2 }, "C05 exactly one child per distinct tuple");
    std::mem::forget(ca);
    std::mem::forget(cb);
    std::mem::forget(v);
    vcover!(true, "end of harness reached");
}

/// The pairs a child holds are what its collected sample exposes (`Value::metric` clones them),
/// together with the constant labels, sorted by name. Value built from literals + symbolic bytes.
#[cfg_attr(kani, kani::proof, kani::unwind(5),
    kani::stub(std::fmt::format, fmt_stub),
    kani::stub(<[crate::proto::LabelPair]>::sort, sort_stub))]
pub fn c05_child_exposes_values_with_const_labels() {
    let mut cl = proto::LabelPair::default();
    cl.set_name(String::from("k"));
    cl.set_value(String::from("c"));
    let desc = Desc { fq_name: String::from("a"), help: String::from("h"), const_label_pairs: vec![cl],
        variable_labels: vec![String::from("y"), String::from("x")], id: 0, dim_hash: 0 };
    let b = [any_u8(), any_u8()];
    assume(b[0] != 0 && b[0] < 128 && b[1] != 0 && b[1] < 128);
    let s = |i: usize| unsafe { std::str::from_utf8_unchecked(&b[i..i + 1]) };
    let lp = crate::value::make_label_pairs(&desc, &[s(0), s(1)]).unwrap();
    assert!(lp.len() == 3, "C05 child exposes declared labels together with the constant labels");
    assert!(lp[0].name() == "k" && lp[0].value() == "c", "C05 constant label kept");
    assert!(lp[1].name() == "x" && lp[1].value().as_bytes()[0] == b[1], "C05 value under its declared name");
    assert!(lp[2].name() == "y" && lp[2].value().as_bytes()[0] == b[0], "C05 value under its declared name");
    let m = proto::Metric::from_label(lp);
    assert!(m.get_label().len() == 3 && m.get_label()[1].name() == "x", "C05 sample carries the child's label pairs");
    std::mem::forget(m);
    std::mem::forget(desc);
    vcover!(true, "end of harness reached");
}

pub fn dispatch(name: &str) -> Option<fn()> {
    Some(match name {
        "c05_get_or_create_two_requests" => c05_get_or_create_two_requests,
        "c05_child_exposes_values_with_const_labels" => c05_child_exposes_values_with_const_labels,
        _ => return None,
    })
}
