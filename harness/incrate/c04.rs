//! C04 — text exposition is a faithful, parseable rendering of the gathered state.
//! Hosted in `crate::encoder::text` (unit access to `escape_string`, `label_pairs_to_text`,
//! `write_sample`, `WriteUtf8`). Differential against a reference renderer written here.
//! Strings have concrete byte lengths with symbolic contents; number rendering (`f64`/`i64`
//! `Display`) is replaced by injective markers, so the solver shows that the right field's exact
//! bit pattern reaches the right position; that std's `Display`/`FromStr` round-trip is assumed.
use crate::verif_incrate::common::*;
use super::*;
use crate::proto::{LabelPair, Metric};

/// append-only writer into a fixed buffer (no heap growth under the solver)
struct Buf {
    data: [u8; 200],
    len: usize,
}
impl Buf {
    fn new() -> Buf { Buf { data: [0; 200], len: 0 } }
}
impl WriteUtf8 for Buf {
    fn write_all(&mut self, text: &str) -> io::Result<()> {
        let b = text.as_bytes();
        assert!(self.len + b.len() <= 200, "C04 harness buffer too small");
        self.data[self.len..self.len + b.len()].copy_from_slice(b);
        self.len += b.len();
        Ok(())
    }
}
/// reference writer: the expected bytes
struct Exp {
    data: [u8; 48],
    len: usize,
}
impl Exp {
    /// the rendering of an f64 sample value: injective marker under Kani (where `Display` is stubbed by
    /// the same marker), std's real rendering in native replay
    fn num_f64(&mut self, v: f64) {
        #[cfg(kani)]
        self.hex16(v.to_bits());
        #[cfg(not(kani))]
        self.lit(&v.to_string());
    }
    fn num_i64(&mut self, v: i64) {
        #[cfg(kani)]
        {
            self.push(b't');
            self.hex16(v as u64);
        }
        #[cfg(not(kani))]
        self.lit(&v.to_string());
    }
    fn new() -> Exp { Exp { data: [0; 48], len: 0 } }
    fn push(&mut self, b: u8) { self.data[self.len] = b; self.len += 1; }
    fn lit(&mut self, s: &str) { let b = s.as_bytes(); let mut i = 0; while i < b.len() { self.push(b[i]); i += 1; } }
    /// format 0.0.4 escaping: backslash, newline, and (label values only) the double quote
    fn escaped(&mut self, s: &[u8], quote: bool) {
        let mut i = 0;
        while i < s.len() {
            let c = s[i];
            if c == b'\\' { self.push(b'\\'); self.push(b'\\'); }
            else if c == b'\n' { self.push(b'\\'); self.push(b'n'); }
            else if c == b'"' && quote { self.push(b'\\'); self.push(b'"'); }
            else { self.push(c); }
            i += 1;
        }
    }
    fn hex16(&mut self, bits: u64) {
        let mut i = 0;
        while i < 16 {
            let nib = ((bits >> (60 - 4 * i)) & 0xf) as u8;
            self.push(if nib < 10 { b'0' + nib } else { b'a' + (nib - 10) });
            i += 1;
        }
    }
}
fn same(got: &[u8], glen: usize, e: &Exp) -> bool {
    if glen != e.len { return false; }
    let mut i = 0;
    let mut ok = true;
    while i < 48 {
        if i < glen && got[i] != e.data[i] { ok = false; }
        i += 1;
    }
    ok
}
pub fn naive_first(v: &str, q: bool) -> Option<usize> {
    let h = v.as_bytes();
    let mut i = 0;
    while i < h.len() {
        if h[i] == b'\\' || h[i] == b'\n' || (q && h[i] == b'"') { return Some(i); }
        i += 1;
    }
    None
}
pub fn f64_display_marker(v: &f64, f: &mut std::fmt::Formatter<'_>) -> std::fmt::Result {
    let mut e = Exp::new();
    e.hex16(v.to_bits());
    f.write_str(unsafe { std::str::from_utf8_unchecked(&e.data[..16]) })
}
pub fn i64_display_marker(v: &i64, f: &mut std::fmt::Formatter<'_>) -> std::fmt::Result {
    let mut e = Exp::new();
    e.push(b't');
    e.hex16(*v as u64);
    f.write_str(unsafe { std::str::from_utf8_unchecked(&e.data[..17]) })
}
/// one symbolic byte out of the escape classes: backslash, quote, LF, CR, a plain letter
fn cls() -> u8 {
    match any_u8_below(5) { 0 => b'\\', 1 => b'"', 2 => b'\n', 3 => b'\r', _ => b'a' }
}
fn escape_case(bytes: &[u8], quote: bool) {
    let s = unsafe { std::str::from_utf8_unchecked(bytes) };
    let got = escape_string(s, quote);
    let mut e = Exp::new();
    e.escaped(bytes, quote);
    let g = got.as_bytes();
    assert!(g.len() == e.len, "C04 escaping: output length");
    let mut i = 0;
    while i < 8 {
        if i < g.len() { assert!(g[i] == e.data[i], "C04 escaping: backslash, newline and (label values) quote are escaped, everything else is kept"); }
        i += 1;
    }
    let mut nl = false;
    i = 0;
    while i < 8 { if i < g.len() && g[i] == b'\n' { nl = true; } i += 1; }
    assert!(!nl, "C04 no help text or label value can add a line");
    std::mem::forget(got);
}

/// escape_string on every 1-byte string over the escape classes, both modes.
#[cfg_attr(kani, kani::proof, kani::unwind(10),
    kani::stub(crate::encoder::text::find_first_occurence, naive_first))]
pub fn c04_escape_string_1_byte() {
    let b = [cls()];
    escape_case(&b, any_bool());
    vcover!(true, "end of harness reached");
}
/// escape_string on every 2-byte string over the escape classes, help and label-value mode.
#[cfg_attr(kani, kani::proof, kani::unwind(10),
    kani::stub(crate::encoder::text::find_first_occurence, naive_first))]
pub fn c04_escape_string_2_bytes() {
    let b = [cls(), cls()];
    escape_case(&b, any_bool());
    vcover!(true, "end of harness reached");
}
/// escape_string on every 3-byte string over the escape classes.
#[cfg_attr(kani, kani::proof, kani::unwind(10),
    kani::stub(crate::encoder::text::find_first_occurence, naive_first))]
pub fn c04_escape_string_3_bytes() {
    let b = [cls(), cls(), cls()];
    escape_case(&b, any_bool());
    vcover!(true, "end of harness reached");
}
/// escape_string with a multi-byte character before / after an escaped one ("é" = C3 A9).
#[cfg_attr(kani, kani::proof, kani::unwind(10),
    kani::stub(crate::encoder::text::find_first_occurence, naive_first))]
pub fn c04_escape_string_multibyte() {
    let c = cls();
    escape_case(&[0xC3, 0xA9, c], true);
    escape_case(&[c, 0xC3, 0xA9], true);
    vcover!(true, "end of harness reached");
}

fn label(name: &str, v: &[u8]) -> LabelPair {
    let mut l = LabelPair::default();
    l.set_name(String::from(name));
    l.set_value(unsafe { String::from_utf8_unchecked(v.to_vec()) });
    l
}
/// write_sample: name, optional postfix, two labels with symbolic 1-byte values plus an
/// additional label, symbolic f64 value (marker rendering) and symbolic timestamp: the line is
/// exactly `name{a="..",b="..",le=".."} <value>[ <timestamp>]\n`.
#[cfg_attr(kani, kani::proof, kani::unwind(20),
    kani::stub(crate::encoder::text::find_first_occurence, naive_first),
    kani::stub(<f64 as std::fmt::Display>::fmt, f64_display_marker),
    kani::stub(<i64 as std::fmt::Display>::fmt, i64_display_marker))]
pub fn c04_write_sample_layout() {
    let (v1, v2, v3) = (cls(), cls(), cls());
    let value = any_f64();
    let ts = any_i64();
    let mut m = Metric::from_label(vec![label("a", &[v1]), label("b", &[v2])]);
    m.set_timestamp_ms(ts);
    let extra = [v3];
    let mut w = Buf::new();
    let r = write_sample(&mut w, "n", Some("_bucket"), &m, Some(("le", unsafe { std::str::from_utf8_unchecked(&extra) })), value);
    assert!(r.is_ok());
    let mut e = Exp::new();
    e.lit("n_bucket{a=\""); e.escaped(&[v1], true);
    e.lit("\",b=\""); e.escaped(&[v2], true);
    e.lit("\",le=\""); e.escaped(&[v3], true);
    e.lit("\"} "); e.num_f64(value);
    if ts != 0 { e.lit(" "); e.num_i64(ts); }
    e.push(b'\n');
    vcover!(ts == 0, "c04.sample: zero timestamp omitted");
    vcover!(v1 == b'\n' && v3 == b'"', "c04.sample: newline and quote in label values");
    assert!(same(&w.data, w.len, &e), "C04 sample line: name, labels (escaped), value bit pattern, non-zero timestamp");
    std::mem::forget(m);
    vcover!(true, "end of harness reached");
}
/// write_sample without labels and without postfix: `name <value>\n`.
#[cfg_attr(kani, kani::proof, kani::unwind(50),
    kani::stub(crate::encoder::text::find_first_occurence, naive_first),
    kani::stub(<f64 as std::fmt::Display>::fmt, f64_display_marker),
    kani::stub(<i64 as std::fmt::Display>::fmt, i64_display_marker))]
pub fn c04_write_sample_no_labels() {
    let value = any_f64();
    let m = Metric::default();
    let mut w = Buf::new();
    assert!(write_sample(&mut w, "n", None, &m, None, value).is_ok());
    let mut e = Exp::new();
    e.lit("n "); e.num_f64(value); e.push(b'\n');
    assert!(same(&w.data, w.len, &e), "C04 sample line without labels");
    std::mem::forget(m);
    vcover!(true, "end of harness reached");
}


use crate::proto::{Bucket, Counter, Gauge, Histogram, MetricFamily, MetricType, Quantile, Summary};

/// Histogram family (literal names, one label, one explicit bucket) with symbolic numbers: bucket
/// bound, cumulative count, sample count, sample sum, and timestamp. Output must be exactly
/// HELP, TYPE, the bucket line, the implicit +Inf bucket = sample count, _sum, _count.
#[cfg_attr(kani, kani::proof, kani::unwind(20),
    kani::stub(std::fmt::format, fmt_scripted_strs),
    kani::stub(<str>::to_lowercase, ascii_lowercase_stub),
    kani::stub(crate::encoder::text::find_first_occurence, naive_first),
    kani::stub(<f64 as std::fmt::Display>::fmt, f64_display_marker),
    kani::stub(<i64 as std::fmt::Display>::fmt, i64_display_marker))]
pub fn c04_encode_histogram_family_layout() {
    // `format!("{:?}", metric_type)` is called once per family and entry point: scripted
    fmt_script_strs(&["Histogram"]);
    let (bound, sum) = (any_f64(), any_f64());
    let (cum, cnt) = (any_u64(), any_u64());
    assume(!(bound == f64::INFINITY));
    let mut h = Histogram::default();
    h.set_sample_count(cnt);
    h.set_sample_sum(sum);
    let mut b = Bucket::default();
    b.set_upper_bound(bound);
    b.set_cumulative_count(cum);
    h.set_bucket(vec![b]);
    let mut m = Metric::from_label(vec![label("l", b"v")]);
    m.set_histogram(h);
    let mut mf = MetricFamily::default();
    mf.set_name(String::from("h"));
    mf.set_help(String::from("x"));
    mf.set_field_type(MetricType::HISTOGRAM);
    mf.set_metric(vec![m]);
    let mut out = Buf::new();
    assert!(out.write_all("P\n").is_ok());
    let r = TextEncoder::new().encode_impl(&[mf], &mut out);
    assert!(r.is_ok());
    let mut e = Exp2::new();
    e.lit("P\n# HELP h x\n# TYPE h histogram\n");
    e.lit("h_bucket{l=\"v\",le=\""); e.num_f64(bound); e.lit("\"} "); e.num_f64(cum as f64); e.lit("\n");
    e.lit("h_bucket{l=\"v\",le=\"+Inf\"} "); e.num_f64(cnt as f64); e.lit("\n");
    e.lit("h_sum{l=\"v\"} "); e.num_f64(sum); e.lit("\n");
    e.lit("h_count{l=\"v\"} "); e.num_f64(cnt as f64); e.lit("\n");
    assert!(e.matches(&out.data, out.len), "C04 histogram: HELP, TYPE, cumulative buckets, +Inf bucket equal to the count, _sum, _count; output only appended");
    vcover!(true, "end of harness reached");
}
/// Two families (gauge without help, counter with timestamp): order preserved, one TYPE block per
/// family, empty help omits the HELP line, non-zero timestamp kept.
#[cfg_attr(kani, kani::proof, kani::unwind(20),
    kani::stub(std::fmt::format, fmt_scripted_strs),
    kani::stub(<str>::to_lowercase, ascii_lowercase_stub),
    kani::stub(crate::encoder::text::find_first_occurence, naive_first),
    kani::stub(<f64 as std::fmt::Display>::fmt, f64_display_marker),
    kani::stub(<i64 as std::fmt::Display>::fmt, i64_display_marker))]
pub fn c04_encode_two_families_order_and_agreement() {
    // `format!("{:?}", metric_type)` is called once per family and entry point: scripted
    fmt_script_strs(&["Gauge", "Counter"]);
    let (gv, cv) = (any_f64(), any_f64());
    let ts = any_i64();
    assume(ts != 0);
    let mk = || {
        let mut g = Gauge::default();
        g.set_value(gv);
        let mut m1 = Metric::default();
        m1.set_gauge(g);
        let mut f1 = MetricFamily::default();
        f1.set_name(String::from("b"));
        f1.set_field_type(MetricType::GAUGE);
        f1.set_metric(vec![m1]);
        let mut c = Counter::default();
        c.set_value(cv);
        let mut m2 = Metric::default();
        m2.set_counter(c);
        m2.set_timestamp_ms(ts);
        let mut f2 = MetricFamily::default();
        f2.set_name(String::from("a"));
        f2.set_help(String::from("y"));
        f2.set_field_type(MetricType::COUNTER);
        f2.set_metric(vec![m2]);
        [f1, f2]
    };
    let fams = mk();
    let mut out = Buf::new();
    assert!(TextEncoder::new().encode_impl(&fams, &mut out).is_ok());
    let mut e = Exp2::new();
    e.lit("# TYPE b gauge\nb "); e.num_f64(gv); e.lit("\n");
    e.lit("# HELP a y\n# TYPE a counter\na "); e.num_f64(cv); e.lit(" "); e.num_i64(ts); e.lit("\n");
    assert!(e.matches(&out.data, out.len), "C04 families in order, one header block each, empty help omitted, timestamp kept");
    std::mem::forget(fams);
    vcover!(true, "end of harness reached");
}
/// `encode` (io::Write), `encode_utf8` and `encode_to_string` are the same rendering: on a gauge
/// family with a symbolic value all three produce the bytes `encode_impl` writes, after whatever
/// the buffer already held.
#[cfg_attr(kani, kani::proof, kani::unwind(20),
    kani::stub(std::fmt::format, fmt_scripted_strs),
    kani::stub(<str>::to_lowercase, ascii_lowercase_stub),
    kani::stub(crate::encoder::text::find_first_occurence, naive_first),
    kani::stub(<f64 as std::fmt::Display>::fmt, f64_display_marker),
    kani::stub(<i64 as std::fmt::Display>::fmt, i64_display_marker))]
pub fn c04_entry_points_agree_and_append() {
    fmt_script_strs(&["Gauge", "Gauge", "Gauge"]);
    let gv = any_f64();
    let mut g = Gauge::default();
    g.set_value(gv);
    let mut m1 = Metric::default();
    m1.set_gauge(g);
    let mut f1 = MetricFamily::default();
    f1.set_name(String::from("b"));
    f1.set_field_type(MetricType::GAUGE);
    f1.set_metric(vec![m1]);
    let fams = [f1];
    let mut e = Exp2::new();
    e.lit("# TYPE b gauge\nb "); e.num_f64(gv); e.lit("\n");
    let mut s1 = String::with_capacity(64);
    s1.push('P');
    assert!(TextEncoder::new().encode_utf8(&fams, &mut s1).is_ok());
    let mut w: Vec<u8> = Vec::with_capacity(64);
    w.push(b'P');
    assert!(crate::encoder::Encoder::encode(&TextEncoder::new(), &fams, &mut w).is_ok());
    let s3 = TextEncoder::new().encode_to_string(&fams).unwrap();
    let cp = |b: &[u8]| { let mut a = [0u8; 200]; a[..b.len()].copy_from_slice(b); (a, b.len()) };
    let (a1, n1) = cp(&s1.as_bytes()[1..]);
    let (a2, n2) = cp(&w[1..]);
    let (a3, n3) = cp(s3.as_bytes());
    assert!(s1.as_bytes()[0] == b'P' && w[0] == b'P', "C04 encoders only append to their output");
    assert!(e.matches(&a1, n1), "C04 encode_utf8 renders the families");
    assert!(e.matches(&a2, n2), "C04 encode (io::Write) produces the same bytes as encode_utf8");
    assert!(e.matches(&a3, n3), "C04 encode_to_string produces the same bytes as encode_utf8");
    std::mem::forget((s1, w, s3));
    std::mem::forget(fams);
    vcover!(true, "end of harness reached");
}

/// Summary family: quantile lines, _sum, _count.
#[cfg_attr(kani, kani::proof, kani::unwind(20),
    kani::stub(std::fmt::format, fmt_scripted_strs),
    kani::stub(<str>::to_lowercase, ascii_lowercase_stub),
    kani::stub(crate::encoder::text::find_first_occurence, naive_first),
    kani::stub(<f64 as std::fmt::Display>::fmt, f64_display_marker),
    kani::stub(<i64 as std::fmt::Display>::fmt, i64_display_marker))]
pub fn c04_encode_summary_family_layout() {
    // `format!("{:?}", metric_type)` is called once per family and entry point: scripted
    fmt_script_strs(&["Summary"]);
    let (q, v, sum) = (any_f64(), any_f64(), any_f64());
    let cnt = any_u64();
    let mut sm = Summary::default();
    sm.set_sample_count(cnt);
    sm.set_sample_sum(sum);
    let mut qt = Quantile::default();
    qt.set_quantile(q);
    qt.set_value(v);
    sm.set_quantile(vec![qt]);
    let mut m = Metric::default();
    m.set_summary(sm);
    let mut mf = MetricFamily::default();
    mf.set_name(String::from("s"));
    mf.set_field_type(MetricType::SUMMARY);
    mf.set_metric(vec![m]);
    let mut out = Buf::new();
    assert!(TextEncoder::new().encode_impl(&[mf], &mut out).is_ok());
    let mut e = Exp2::new();
    e.lit("# TYPE s summary\ns{quantile=\""); e.num_f64(q); e.lit("\"} "); e.num_f64(v); e.lit("\n");
    e.lit("s_sum "); e.num_f64(sum); e.lit("\ns_count "); e.num_f64(cnt as f64); e.lit("\n");
    assert!(e.matches(&out.data, out.len), "C04 summary: quantile lines, _sum, _count");
    vcover!(true, "end of harness reached");
}

/// expected bytes, 200-byte capacity; no loops over the text (memcpy for literals, an unrolled
/// comparison), so that the harness unwind bound stays small
struct Exp2 {
    data: [u8; 200],
    len: usize,
}
impl Exp2 {
    fn num_f64(&mut self, v: f64) {
        #[cfg(kani)]
        self.hex16(v.to_bits());
        #[cfg(not(kani))]
        self.lit(&v.to_string());
    }
    fn num_i64(&mut self, v: i64) {
        #[cfg(kani)]
        {
            self.push(b't');
            self.hex16(v as u64);
        }
        #[cfg(not(kani))]
        self.lit(&v.to_string());
    }
    fn new() -> Exp2 { Exp2 { data: [0; 200], len: 0 } }
    fn push(&mut self, b: u8) { self.data[self.len] = b; self.len += 1; }
    fn lit(&mut self, s: &str) {
        let b = s.as_bytes();
        self.data[self.len..self.len + b.len()].copy_from_slice(b);
        self.len += b.len();
    }
    fn hex16(&mut self, bits: u64) {
        let mut i = 0;
        while i < 16 {
            let nib = ((bits >> (60 - 4 * i)) & 0xf) as u8;
            self.push(if nib < 10 { b'0' + nib } else { b'a' + (nib - 10) });
            i += 1;
        }
    }
    /// byte-for-byte equality (unrolled)
    fn matches(&self, got: &[u8; 200], glen: usize) -> bool {
        if glen != self.len { return false; }
        let n = self.len;
        let mut ok = true;
        if 0 < n && got[0] != self.data[0] { ok = false; }
        if 1 < n && got[1] != self.data[1] { ok = false; }
        if 2 < n && got[2] != self.data[2] { ok = false; }
        if 3 < n && got[3] != self.data[3] { ok = false; }
        if 4 < n && got[4] != self.data[4] { ok = false; }
        if 5 < n && got[5] != self.data[5] { ok = false; }
        if 6 < n && got[6] != self.data[6] { ok = false; }
        if 7 < n && got[7] != self.data[7] { ok = false; }
        if 8 < n && got[8] != self.data[8] { ok = false; }
        if 9 < n && got[9] != self.data[9] { ok = false; }
        if 10 < n && got[10] != self.data[10] { ok = false; }
        if 11 < n && got[11] != self.data[11] { ok = false; }
        if 12 < n && got[12] != self.data[12] { ok = false; }
        if 13 < n && got[13] != self.data[13] { ok = false; }
        if 14 < n && got[14] != self.data[14] { ok = false; }
        if 15 < n && got[15] != self.data[15] { ok = false; }
        if 16 < n && got[16] != self.data[16] { ok = false; }
        if 17 < n && got[17] != self.data[17] { ok = false; }
        if 18 < n && got[18] != self.data[18] { ok = false; }
        if 19 < n && got[19] != self.data[19] { ok = false; }
        if 20 < n && got[20] != self.data[20] { ok = false; }
        if 21 < n && got[21] != self.data[21] { ok = false; }
        if 22 < n && got[22] != self.data[22] { ok = false; }
        if 23 < n && got[23] != self.data[23] { ok = false; }
        if 24 < n && got[24] != self.data[24] { ok = false; }
        if 25 < n && got[25] != self.data[25] { ok = false; }
        if 26 < n && got[26] != self.data[26] { ok = false; }
        if 27 < n && got[27] != self.data[27] { ok = false; }
        if 28 < n && got[28] != self.data[28] { ok = false; }
        if 29 < n && got[29] != self.data[29] { ok = false; }
        if 30 < n && got[30] != self.data[30] { ok = false; }
        if 31 < n && got[31] != self.data[31] { ok = false; }
        if 32 < n && got[32] != self.data[32] { ok = false; }
        if 33 < n && got[33] != self.data[33] { ok = false; }
        if 34 < n && got[34] != self.data[34] { ok = false; }
        if 35 < n && got[35] != self.data[35] { ok = false; }
        if 36 < n && got[36] != self.data[36] { ok = false; }
        if 37 < n && got[37] != self.data[37] { ok = false; }
        if 38 < n && got[38] != self.data[38] { ok = false; }
        if 39 < n && got[39] != self.data[39] { ok = false; }
        if 40 < n && got[40] != self.data[40] { ok = false; }
        if 41 < n && got[41] != self.data[41] { ok = false; }
        if 42 < n && got[42] != self.data[42] { ok = false; }
        if 43 < n && got[43] != self.data[43] { ok = false; }
        if 44 < n && got[44] != self.data[44] { ok = false; }
        if 45 < n && got[45] != self.data[45] { ok = false; }
        if 46 < n && got[46] != self.data[46] { ok = false; }
        if 47 < n && got[47] != self.data[47] { ok = false; }
        if 48 < n && got[48] != self.data[48] { ok = false; }
        if 49 < n && got[49] != self.data[49] { ok = false; }
        if 50 < n && got[50] != self.data[50] { ok = false; }
        if 51 < n && got[51] != self.data[51] { ok = false; }
        if 52 < n && got[52] != self.data[52] { ok = false; }
        if 53 < n && got[53] != self.data[53] { ok = false; }
        if 54 < n && got[54] != self.data[54] { ok = false; }
        if 55 < n && got[55] != self.data[55] { ok = false; }
        if 56 < n && got[56] != self.data[56] { ok = false; }
        if 57 < n && got[57] != self.data[57] { ok = false; }
        if 58 < n && got[58] != self.data[58] { ok = false; }
        if 59 < n && got[59] != self.data[59] { ok = false; }
        if 60 < n && got[60] != self.data[60] { ok = false; }
        if 61 < n && got[61] != self.data[61] { ok = false; }
        if 62 < n && got[62] != self.data[62] { ok = false; }
        if 63 < n && got[63] != self.data[63] { ok = false; }
        if 64 < n && got[64] != self.data[64] { ok = false; }
        if 65 < n && got[65] != self.data[65] { ok = false; }
        if 66 < n && got[66] != self.data[66] { ok = false; }
        if 67 < n && got[67] != self.data[67] { ok = false; }
        if 68 < n && got[68] != self.data[68] { ok = false; }
        if 69 < n && got[69] != self.data[69] { ok = false; }
        if 70 < n && got[70] != self.data[70] { ok = false; }
        if 71 < n && got[71] != self.data[71] { ok = false; }
        if 72 < n && got[72] != self.data[72] { ok = false; }
        if 73 < n && got[73] != self.data[73] { ok = false; }
        if 74 < n && got[74] != self.data[74] { ok = false; }
        if 75 < n && got[75] != self.data[75] { ok = false; }
        if 76 < n && got[76] != self.data[76] { ok = false; }
        if 77 < n && got[77] != self.data[77] { ok = false; }
        if 78 < n && got[78] != self.data[78] { ok = false; }
        if 79 < n && got[79] != self.data[79] { ok = false; }
        if 80 < n && got[80] != self.data[80] { ok = false; }
        if 81 < n && got[81] != self.data[81] { ok = false; }
        if 82 < n && got[82] != self.data[82] { ok = false; }
        if 83 < n && got[83] != self.data[83] { ok = false; }
        if 84 < n && got[84] != self.data[84] { ok = false; }
        if 85 < n && got[85] != self.data[85] { ok = false; }
        if 86 < n && got[86] != self.data[86] { ok = false; }
        if 87 < n && got[87] != self.data[87] { ok = false; }
        if 88 < n && got[88] != self.data[88] { ok = false; }
        if 89 < n && got[89] != self.data[89] { ok = false; }
        if 90 < n && got[90] != self.data[90] { ok = false; }
        if 91 < n && got[91] != self.data[91] { ok = false; }
        if 92 < n && got[92] != self.data[92] { ok = false; }
        if 93 < n && got[93] != self.data[93] { ok = false; }
        if 94 < n && got[94] != self.data[94] { ok = false; }
        if 95 < n && got[95] != self.data[95] { ok = false; }
        if 96 < n && got[96] != self.data[96] { ok = false; }
        if 97 < n && got[97] != self.data[97] { ok = false; }
        if 98 < n && got[98] != self.data[98] { ok = false; }
        if 99 < n && got[99] != self.data[99] { ok = false; }
        if 100 < n && got[100] != self.data[100] { ok = false; }
        if 101 < n && got[101] != self.data[101] { ok = false; }
        if 102 < n && got[102] != self.data[102] { ok = false; }
        if 103 < n && got[103] != self.data[103] { ok = false; }
        if 104 < n && got[104] != self.data[104] { ok = false; }
        if 105 < n && got[105] != self.data[105] { ok = false; }
        if 106 < n && got[106] != self.data[106] { ok = false; }
        if 107 < n && got[107] != self.data[107] { ok = false; }
        if 108 < n && got[108] != self.data[108] { ok = false; }
        if 109 < n && got[109] != self.data[109] { ok = false; }
        if 110 < n && got[110] != self.data[110] { ok = false; }
        if 111 < n && got[111] != self.data[111] { ok = false; }
        if 112 < n && got[112] != self.data[112] { ok = false; }
        if 113 < n && got[113] != self.data[113] { ok = false; }
        if 114 < n && got[114] != self.data[114] { ok = false; }
        if 115 < n && got[115] != self.data[115] { ok = false; }
        if 116 < n && got[116] != self.data[116] { ok = false; }
        if 117 < n && got[117] != self.data[117] { ok = false; }
        if 118 < n && got[118] != self.data[118] { ok = false; }
        if 119 < n && got[119] != self.data[119] { ok = false; }
        if 120 < n && got[120] != self.data[120] { ok = false; }
        if 121 < n && got[121] != self.data[121] { ok = false; }
        if 122 < n && got[122] != self.data[122] { ok = false; }
        if 123 < n && got[123] != self.data[123] { ok = false; }
        if 124 < n && got[124] != self.data[124] { ok = false; }
        if 125 < n && got[125] != self.data[125] { ok = false; }
        if 126 < n && got[126] != self.data[126] { ok = false; }
        if 127 < n && got[127] != self.data[127] { ok = false; }
        if 128 < n && got[128] != self.data[128] { ok = false; }
        if 129 < n && got[129] != self.data[129] { ok = false; }
        if 130 < n && got[130] != self.data[130] { ok = false; }
        if 131 < n && got[131] != self.data[131] { ok = false; }
        if 132 < n && got[132] != self.data[132] { ok = false; }
        if 133 < n && got[133] != self.data[133] { ok = false; }
        if 134 < n && got[134] != self.data[134] { ok = false; }
        if 135 < n && got[135] != self.data[135] { ok = false; }
        if 136 < n && got[136] != self.data[136] { ok = false; }
        if 137 < n && got[137] != self.data[137] { ok = false; }
        if 138 < n && got[138] != self.data[138] { ok = false; }
        if 139 < n && got[139] != self.data[139] { ok = false; }
        if 140 < n && got[140] != self.data[140] { ok = false; }
        if 141 < n && got[141] != self.data[141] { ok = false; }
        if 142 < n && got[142] != self.data[142] { ok = false; }
        if 143 < n && got[143] != self.data[143] { ok = false; }
        if 144 < n && got[144] != self.data[144] { ok = false; }
        if 145 < n && got[145] != self.data[145] { ok = false; }
        if 146 < n && got[146] != self.data[146] { ok = false; }
        if 147 < n && got[147] != self.data[147] { ok = false; }
        if 148 < n && got[148] != self.data[148] { ok = false; }
        if 149 < n && got[149] != self.data[149] { ok = false; }
        if 150 < n && got[150] != self.data[150] { ok = false; }
        if 151 < n && got[151] != self.data[151] { ok = false; }
        if 152 < n && got[152] != self.data[152] { ok = false; }
        if 153 < n && got[153] != self.data[153] { ok = false; }
        if 154 < n && got[154] != self.data[154] { ok = false; }
        if 155 < n && got[155] != self.data[155] { ok = false; }
        if 156 < n && got[156] != self.data[156] { ok = false; }
        if 157 < n && got[157] != self.data[157] { ok = false; }
        if 158 < n && got[158] != self.data[158] { ok = false; }
        if 159 < n && got[159] != self.data[159] { ok = false; }
        if 160 < n && got[160] != self.data[160] { ok = false; }
        if 161 < n && got[161] != self.data[161] { ok = false; }
        if 162 < n && got[162] != self.data[162] { ok = false; }
        if 163 < n && got[163] != self.data[163] { ok = false; }
        if 164 < n && got[164] != self.data[164] { ok = false; }
        if 165 < n && got[165] != self.data[165] { ok = false; }
        if 166 < n && got[166] != self.data[166] { ok = false; }
        if 167 < n && got[167] != self.data[167] { ok = false; }
        if 168 < n && got[168] != self.data[168] { ok = false; }
        if 169 < n && got[169] != self.data[169] { ok = false; }
        if 170 < n && got[170] != self.data[170] { ok = false; }
        if 171 < n && got[171] != self.data[171] { ok = false; }
        if 172 < n && got[172] != self.data[172] { ok = false; }
        if 173 < n && got[173] != self.data[173] { ok = false; }
        if 174 < n && got[174] != self.data[174] { ok = false; }
        if 175 < n && got[175] != self.data[175] { ok = false; }
        if 176 < n && got[176] != self.data[176] { ok = false; }
        if 177 < n && got[177] != self.data[177] { ok = false; }
        if 178 < n && got[178] != self.data[178] { ok = false; }
        if 179 < n && got[179] != self.data[179] { ok = false; }
        if 180 < n && got[180] != self.data[180] { ok = false; }
        if 181 < n && got[181] != self.data[181] { ok = false; }
        if 182 < n && got[182] != self.data[182] { ok = false; }
        if 183 < n && got[183] != self.data[183] { ok = false; }
        if 184 < n && got[184] != self.data[184] { ok = false; }
        if 185 < n && got[185] != self.data[185] { ok = false; }
        if 186 < n && got[186] != self.data[186] { ok = false; }
        if 187 < n && got[187] != self.data[187] { ok = false; }
        if 188 < n && got[188] != self.data[188] { ok = false; }
        if 189 < n && got[189] != self.data[189] { ok = false; }
        if 190 < n && got[190] != self.data[190] { ok = false; }
        if 191 < n && got[191] != self.data[191] { ok = false; }
        if 192 < n && got[192] != self.data[192] { ok = false; }
        if 193 < n && got[193] != self.data[193] { ok = false; }
        if 194 < n && got[194] != self.data[194] { ok = false; }
        if 195 < n && got[195] != self.data[195] { ok = false; }
        if 196 < n && got[196] != self.data[196] { ok = false; }
        if 197 < n && got[197] != self.data[197] { ok = false; }
        if 198 < n && got[198] != self.data[198] { ok = false; }
        if 199 < n && got[199] != self.data[199] { ok = false; }
        ok
    }
}

pub fn dispatch(name: &str) -> Option<fn()> {
    Some(match name {
        "c04_escape_string_1_byte" => c04_escape_string_1_byte,
        "c04_escape_string_2_bytes" => c04_escape_string_2_bytes,
        "c04_escape_string_3_bytes" => c04_escape_string_3_bytes,
        "c04_escape_string_multibyte" => c04_escape_string_multibyte,
        "c04_write_sample_layout" => c04_write_sample_layout,
        "c04_write_sample_no_labels" => c04_write_sample_no_labels,
        "c04_encode_histogram_family_layout" => c04_encode_histogram_family_layout,
        "c04_encode_two_families_order_and_agreement" => c04_encode_two_families_order_and_agreement,
        "c04_encode_summary_family_layout" => c04_encode_summary_family_layout,
        "c04_entry_points_agree_and_append" => c04_entry_points_agree_and_append,
        _ => return None,
    })
}
