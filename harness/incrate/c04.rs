//! C04 — text exposition is a faithful, parseable rendering of the gathered state.
//! Hosted in `crate::encoder::text` (unit access to `escape_string`, `label_pairs_to_text`,
//! `write_sample`, `WriteUtf8`). Differential against a reference renderer written here.
//! Strings have concrete byte lengths with symbolic contents; number rendering (`f64`/`i64`
//! `Display`) is replaced by injective markers, so the solver shows that the right field's exact
//! bit pattern reaches the right position; that std's `Display`/`FromStr` round-trip is assumed.
use crate::verif_incrate::common::*;
use super::*;
use crate::proto::{LabelPair, Metric};

/// append-only writer into a fixed buffer (no heap growth under the solver)
struct Buf {
    data: [u8; 48],
    len: usize,
}
impl Buf {
    fn new() -> Buf { Buf { data: [0; 48], len: 0 } }
}
impl WriteUtf8 for Buf {
    fn write_all(&mut self, text: &str) -> io::Result<()> {
        let b = text.as_bytes();
        let mut i = 0;
        while i < b.len() {
            assert!(self.len < 48, "C04 harness buffer too small");
            self.data[self.len] = b[i];
            self.len += 1;
            i += 1;
        }
        Ok(())
    }
}
/// reference writer: the expected bytes
struct Exp {
    data: [u8; 48],
    len: usize,
}
impl Exp {
    /// the rendering of an f64 sample value: injective marker under Kani (where `Display` is stubbed by
    /// the same marker), std's real rendering in native replay
    fn num_f64(&mut self, v: f64) {
        #[cfg(kani)]
        self.hex16(v.to_bits());
        #[cfg(not(kani))]
        self.lit(&v.to_string());
    }
    fn num_i64(&mut self, v: i64) {
        #[cfg(kani)]
        {
            self.push(b't');
            self.hex16(v as u64);
        }
        #[cfg(not(kani))]
        self.lit(&v.to_string());
    }
    fn new() -> Exp { Exp { data: [0; 48], len: 0 } }
    fn push(&mut self, b: u8) { self.data[self.len] = b; self.len += 1; }
    fn lit(&mut self, s: &str) { let b = s.as_bytes(); let mut i = 0; while i < b.len() { self.push(b[i]); i += 1; } }
    /// format 0.0.4 escaping: backslash, newline, and (label values only) the double quote
    fn escaped(&mut self, s: &[u8], quote: bool) {
        let mut i = 0;
        while i < s.len() {
            let c = s[i];
            if c == b'\\' { self.push(b'\\'); self.push(b'\\'); }
            else if c == b'\n' { self.push(b'\\'); self.push(b'n'); }
            else if c == b'"' && quote { self.push(b'\\'); self.push(b'"'); }
            else { self.push(c); }
            i += 1;
        }
    }
    fn hex16(&mut self, bits: u64) {
        let mut i = 0;
        while i < 16 {
            let nib = ((bits >> (60 - 4 * i)) & 0xf) as u8;
            self.push(if nib < 10 { b'0' + nib } else { b'a' + (nib - 10) });
            i += 1;
        }
    }
}
fn same(got: &[u8], glen: usize, e: &Exp) -> bool {
    if glen != e.len { return false; }
    let mut i = 0;
    let mut ok = true;
    while i < 48 {
        if i < glen && got[i] != e.data[i] { ok = false; }
        i += 1;
    }
    ok
}
pub fn naive_first(v: &str, q: bool) -> Option<usize> {
    let h = v.as_bytes();
    let mut i = 0;
    while i < h.len() {
        if h[i] == b'\\' || h[i] == b'\n' || (q && h[i] == b'"') { return Some(i); }
        i += 1;
    }
    None
}
pub fn f64_display_marker(v: &f64, f: &mut std::fmt::Formatter<'_>) -> std::fmt::Result {
    let mut e = Exp::new();
    e.num_f64(v);
    f.write_str(unsafe { std::str::from_utf8_unchecked(&e.data[..16]) })
}
pub fn i64_display_marker(v: &i64, f: &mut std::fmt::Formatter<'_>) -> std::fmt::Result {
    let mut e = Exp::new();
    e.push(b't');
    e.hex16(*v as u64);
    f.write_str(unsafe { std::str::from_utf8_unchecked(&e.data[..17]) })
}
/// one symbolic byte out of the escape classes: backslash, quote, LF, CR, a plain letter
fn cls() -> u8 {
    match any_u8_below(5) { 0 => b'\\', 1 => b'"', 2 => b'\n', 3 => b'\r', _ => b'a' }
}
fn escape_case(bytes: &[u8], quote: bool) {
    let s = unsafe { std::str::from_utf8_unchecked(bytes) };
    let got = escape_string(s, quote);
    let mut e = Exp::new();
    e.escaped(bytes, quote);
    let g = got.as_bytes();
    assert!(g.len() == e.len, "C04 escaping: output length");
    let mut i = 0;
    while i < 8 {
        if i < g.len() { assert!(g[i] == e.data[i], "C04 escaping: backslash, newline and (label values) quote are escaped, everything else is kept"); }
        i += 1;
    }
    let mut nl = false;
    i = 0;
    while i < 8 { if i < g.len() && g[i] == b'\n' { nl = true; } i += 1; }
    assert!(!nl, "C04 no help text or label value can add a line");
    std::mem::forget(got);
}

/// escape_string on every 1-byte string over the escape classes, both modes.
#[cfg_attr(kani, kani::proof, kani::unwind(10),
    kani::stub(crate::encoder::text::find_first_occurence, naive_first))]
pub fn c04_escape_string_1_byte() {
    let b = [cls()];
    escape_case(&b, any_bool());
}
/// escape_string on every 2-byte string over the escape classes, help and label-value mode.
#[cfg_attr(kani, kani::proof, kani::unwind(10),
    kani::stub(crate::encoder::text::find_first_occurence, naive_first))]
pub fn c04_escape_string_2_bytes() {
    let b = [cls(), cls()];
    escape_case(&b, any_bool());
}
/// escape_string on every 3-byte string over the escape classes.
#[cfg_attr(kani, kani::proof, kani::unwind(10),
    kani::stub(crate::encoder::text::find_first_occurence, naive_first))]
pub fn c04_escape_string_3_bytes() {
    let b = [cls(), cls(), cls()];
    escape_case(&b, any_bool());
}
/// escape_string with a multi-byte character before / after an escaped one ("é" = C3 A9).
#[cfg_attr(kani, kani::proof, kani::unwind(10),
    kani::stub(crate::encoder::text::find_first_occurence, naive_first))]
pub fn c04_escape_string_multibyte() {
    let c = cls();
    escape_case(&[0xC3, 0xA9, c], true);
    escape_case(&[c, 0xC3, 0xA9], true);
}

fn label(name: &str, v: &[u8]) -> LabelPair {
    let mut l = LabelPair::default();
    l.set_name(String::from(name));
    l.set_value(unsafe { String::from_utf8_unchecked(v.to_vec()) });
    l
}
/// write_sample: name, optional postfix, two labels with symbolic 1-byte values plus an
/// additional label, symbolic f64 value (marker rendering) and symbolic timestamp: the line is
/// exactly `name{a="..",b="..",le=".."} <value>[ <timestamp>]\n`.
#[cfg_attr(kani, kani::proof, kani::unwind(20),
    kani::stub(crate::encoder::text::find_first_occurence, naive_first),
    kani::stub(<f64 as std::fmt::Display>::fmt, f64_display_marker),
    kani::stub(<i64 as std::fmt::Display>::fmt, i64_display_marker))]
pub fn c04_write_sample_layout() {
    let (v1, v2, v3) = (cls(), cls(), cls());
    let value = any_f64();
    let ts = any_i64();
    let mut m = Metric::from_label(vec![label("a", &[v1]), label("b", &[v2])]);
    m.set_timestamp_ms(ts);
    let extra = [v3];
    let mut w = Buf::new();
    let r = write_sample(&mut w, "n", Some("_bucket"), &m, Some(("le", unsafe { std::str::from_utf8_unchecked(&extra) })), value);
    assert!(r.is_ok());
    let mut e = Exp::new();
    e.lit("n_bucket{a=\""); e.escaped(&[v1], true);
    e.lit("\",b=\""); e.escaped(&[v2], true);
    e.lit("\",le=\""); e.escaped(&[v3], true);
    e.lit("\"} "); e.num_f64(value);
    if ts != 0 { e.lit(" "); e.num_i64(ts); }
    e.push(b'\n');
    vcover!(ts == 0, "c04.sample: zero timestamp omitted");
    vcover!(v1 == b'\n' && v3 == b'"', "c04.sample: newline and quote in label values");
    assert!(same(&w.data, w.len, &e), "C04 sample line: name, labels (escaped), value bit pattern, non-zero timestamp");
    std::mem::forget(m);
}
/// write_sample without labels and without postfix: `name <value>\n`.
#[cfg_attr(kani, kani::proof, kani::unwind(50),
    kani::stub(crate::encoder::text::find_first_occurence, naive_first),
    kani::stub(<f64 as std::fmt::Display>::fmt, f64_display_marker),
    kani::stub(<i64 as std::fmt::Display>::fmt, i64_display_marker))]
pub fn c04_write_sample_no_labels() {
    let value = any_f64();
    let m = Metric::default();
    let mut w = Buf::new();
    assert!(write_sample(&mut w, "n", None, &m, None, value).is_ok());
    let mut e = Exp::new();
    e.lit("n "); e.num_f64(value); e.push(b'\n');
    assert!(same(&w.data, w.len, &e), "C04 sample line without labels");
    std::mem::forget(m);
}


use crate::proto::{Bucket, Counter, Gauge, Histogram, MetricFamily, MetricType, Quantile, Summary};

/// Histogram family (literal names, one label, one explicit bucket) with symbolic numbers: bucket
/// bound, cumulative count, sample count, sample sum, and timestamp. Output must be exactly
/// HELP, TYPE, the bucket line, the implicit +Inf bucket = sample count, _sum, _count.
#[cfg_attr(kani, kani::proof, kani::unwind(180),
    kani::stub(crate::encoder::text::find_first_occurence, naive_first),
    kani::stub(<f64 as std::fmt::Display>::fmt, f64_display_marker),
    kani::stub(<i64 as std::fmt::Display>::fmt, i64_display_marker))]
pub fn c04_encode_histogram_family_layout() {
    let (bound, sum) = (any_f64(), any_f64());
    let (cum, cnt) = (any_u64(), any_u64());
    assume(!(bound == f64::INFINITY));
    let mut h = Histogram::default();
    h.set_sample_count(cnt);
    h.set_sample_sum(sum);
    let mut b = Bucket::default();
    b.set_upper_bound(bound);
    b.set_cumulative_count(cum);
    h.set_bucket(vec![b]);
    let mut m = Metric::from_label(vec![label("l", b"v")]);
    m.set_histogram(h);
    let mut mf = MetricFamily::default();
    mf.set_name(String::from("h"));
    mf.set_help(String::from("x"));
    mf.set_field_type(MetricType::HISTOGRAM);
    mf.set_metric(vec![m]);
    let mut out = String::from("P\n");
    let r = TextEncoder::new().encode_utf8(&[mf], &mut out);
    assert!(r.is_ok());
    let mut e = Exp2::new();
    e.lit("P\n# HELP h x\n# TYPE h histogram\n");
    e.lit("h_bucket{l=\"v\",le=\""); e.num_f64(bound); e.lit("\"} "); e.num_f64(cum as f64); e.lit("\n");
    e.lit("h_bucket{l=\"v\",le=\"+Inf\"} "); e.num_f64(cnt as f64); e.lit("\n");
    e.lit("h_sum{l=\"v\"} "); e.num_f64(sum); e.lit("\n");
    e.lit("h_count{l=\"v\"} "); e.num_f64(cnt as f64); e.lit("\n");
    assert!(e.matches(out.as_bytes()), "C04 histogram: HELP, TYPE, cumulative buckets, +Inf bucket equal to the count, _sum, _count; output only appended");
    std::mem::forget(out);
}
/// Two families (gauge without help, counter with timestamp): order preserved, one TYPE block per
/// family, empty help omits the HELP line, non-zero timestamp kept; `encode` (io::Write) and
/// `encode_to_string` produce the same bytes as `encode_utf8`.
#[cfg_attr(kani, kani::proof, kani::unwind(180),
    kani::stub(crate::encoder::text::find_first_occurence, naive_first),
    kani::stub(<f64 as std::fmt::Display>::fmt, f64_display_marker),
    kani::stub(<i64 as std::fmt::Display>::fmt, i64_display_marker))]
pub fn c04_encode_two_families_order_and_agreement() {
    let (gv, cv) = (any_f64(), any_f64());
    let ts = any_i64();
    assume(ts != 0);
    let mk = || {
        let mut g = Gauge::default();
        g.set_value(gv);
        let mut m1 = Metric::default();
        m1.set_gauge(g);
        let mut f1 = MetricFamily::default();
        f1.set_name(String::from("b"));
        f1.set_field_type(MetricType::GAUGE);
        f1.set_metric(vec![m1]);
        let mut c = Counter::default();
        c.set_value(cv);
        let mut m2 = Metric::default();
        m2.set_counter(c);
        m2.set_timestamp_ms(ts);
        let mut f2 = MetricFamily::default();
        f2.set_name(String::from("a"));
        f2.set_help(String::from("y"));
        f2.set_field_type(MetricType::COUNTER);
        f2.set_metric(vec![m2]);
        [f1, f2]
    };
    let fams = mk();
    let mut out = String::new();
    assert!(TextEncoder::new().encode_utf8(&fams, &mut out).is_ok());
    let mut e = Exp2::new();
    e.lit("# TYPE b gauge\nb "); e.num_f64(gv); e.lit("\n");
    e.lit("# HELP a y\n# TYPE a counter\na "); e.num_f64(cv); e.lit(" "); e.num_i64(ts); e.lit("\n");
    assert!(e.matches(out.as_bytes()), "C04 families in order, one header block each, empty help omitted, timestamp kept");
    let mut w: Vec<u8> = Vec::with_capacity(128);
    assert!(crate::encoder::Encoder::encode(&TextEncoder::new(), &fams, &mut w).is_ok());
    assert!(e.matches(&w), "C04 encode (io::Write) produces the same bytes as encode_utf8");
    let s2 = TextEncoder::new().encode_to_string(&fams).unwrap();
    assert!(e.matches(s2.as_bytes()), "C04 encode_to_string produces the same bytes as encode_utf8");
    std::mem::forget((out, w, s2));
    std::mem::forget(fams);
}
/// Summary family: quantile lines, _sum, _count.
#[cfg_attr(kani, kani::proof, kani::unwind(180),
    kani::stub(crate::encoder::text::find_first_occurence, naive_first),
    kani::stub(<f64 as std::fmt::Display>::fmt, f64_display_marker),
    kani::stub(<i64 as std::fmt::Display>::fmt, i64_display_marker))]
pub fn c04_encode_summary_family_layout() {
    let (q, v, sum) = (any_f64(), any_f64(), any_f64());
    let cnt = any_u64();
    let mut sm = Summary::default();
    sm.set_sample_count(cnt);
    sm.set_sample_sum(sum);
    let mut qt = Quantile::default();
    qt.set_quantile(q);
    qt.set_value(v);
    sm.set_quantile(vec![qt]);
    let mut m = Metric::default();
    m.set_summary(sm);
    let mut mf = MetricFamily::default();
    mf.set_name(String::from("s"));
    mf.set_field_type(MetricType::SUMMARY);
    mf.set_metric(vec![m]);
    let mut out = String::new();
    assert!(TextEncoder::new().encode_utf8(&[mf], &mut out).is_ok());
    let mut e = Exp2::new();
    e.lit("# TYPE s summary\ns{quantile=\""); e.num_f64(q); e.lit("\"} "); e.num_f64(v); e.lit("\n");
    e.lit("s_sum "); e.num_f64(sum); e.lit("\ns_count "); e.num_f64(cnt as f64); e.lit("\n");
    assert!(e.matches(out.as_bytes()), "C04 summary: quantile lines, _sum, _count");
    std::mem::forget(out);
}

/// expected bytes, 200-byte capacity
struct Exp2 {
    data: [u8; 200],
    len: usize,
}
impl Exp2 {
    /// the rendering of an f64 sample value: injective marker under Kani (where `Display` is stubbed by
    /// the same marker), std's real rendering in native replay
    fn num_f64(&mut self, v: f64) {
        #[cfg(kani)]
        self.hex16(v.to_bits());
        #[cfg(not(kani))]
        self.lit(&v.to_string());
    }
    fn num_i64(&mut self, v: i64) {
        #[cfg(kani)]
        {
            self.push(b't');
            self.hex16(v as u64);
        }
        #[cfg(not(kani))]
        self.lit(&v.to_string());
    }
    fn new() -> Exp2 { Exp2 { data: [0; 200], len: 0 } }
    fn push(&mut self, b: u8) { self.data[self.len] = b; self.len += 1; }
    fn lit(&mut self, s: &str) { let b = s.as_bytes(); let mut i = 0; while i < b.len() { self.push(b[i]); i += 1; } }
    fn hex16(&mut self, bits: u64) {
        let mut i = 0;
        while i < 16 {
            let nib = ((bits >> (60 - 4 * i)) & 0xf) as u8;
            self.push(if nib < 10 { b'0' + nib } else { b'a' + (nib - 10) });
            i += 1;
        }
    }
    /// byte-for-byte equality with explicit per-position comparison (positions are concrete)
    fn matches(&self, got: &[u8]) -> bool {
        if got.len() != self.len { return false; }
        let mut ok = true;
        let mut i = 0;
        while i < self.len {
            if got[i] != self.data[i] { ok = false; }
            i += 1;
        }
        ok
    }
}

pub fn dispatch(name: &str) -> Option<fn()> {
    Some(match name {
        "c04_escape_string_1_byte" => c04_escape_string_1_byte,
        "c04_escape_string_2_bytes" => c04_escape_string_2_bytes,
        "c04_escape_string_3_bytes" => c04_escape_string_3_bytes,
        "c04_escape_string_multibyte" => c04_escape_string_multibyte,
        "c04_write_sample_layout" => c04_write_sample_layout,
        "c04_write_sample_no_labels" => c04_write_sample_no_labels,
        "c04_encode_histogram_family_layout" => c04_encode_histogram_family_layout,
        "c04_encode_two_families_order_and_agreement" => c04_encode_two_families_order_and_agreement,
        "c04_encode_summary_family_layout" => c04_encode_summary_family_layout,
        _ => return None,
    })
}
