//! C18 — a timer records its duration exactly once, or never when discarded.
//! The clock is a solver variable: `std::time::Instant::now` is stubbed by a function that
//! returns pre-drawn *arbitrary* instants (not even monotone: the statement requires a
//! non-negative observation, and the code saturates at zero).
use crate::verif_incrate::common::*;
use super::*;

static mut CLOCK: [(u64, u32); 4] = [(0, 0); 4];
static mut CLOCK_I: usize = 0;

/// draws all clock readings up front (so that native replay, which uses the real clock, stays
/// aligned with the recorded tape)
fn draw_clock(n: usize) {
    let mut i = 0;
    while i < 4 {
        if i < n {
            let s = any_usize_in(0, 1000) as u64;
            let ns = any_usize_in(0, 1_000_000_000) as u32;
            unsafe { CLOCK[i] = (s, ns) };
        }
        i += 1;
    }
    unsafe { CLOCK_I = 0 };
}
#[repr(C)]
struct RawTimespec {
    secs: u64,
    nanos: u32,
}
pub fn instant_now_stub() -> std::time::Instant {
    assert!(std::mem::size_of::<std::time::Instant>() == 16);
    let (s, n) = unsafe {
        let r = CLOCK[CLOCK_I & 3];
        CLOCK_I += 1;
        r
    };
    unsafe { std::mem::transmute::<RawTimespec, std::time::Instant>(RawTimespec { secs: s, nanos: n }) }
}

fn hist1() -> Histogram {
    let desc = crate::desc::Desc {
        fq_name: String::from("a"), help: String::from("h"), const_label_pairs: Vec::new(), variable_labels: Vec::new(), id: 0, dim_hash: 0,
    };
    Histogram {
        core: Arc::new(HistogramCore {
            desc, label_pairs: Vec::new(), collect_lock: Mutex::new(()), shard_and_count: ShardAndCount::new(),
            shards: [Shard::new(1), Shard::new(1)], upper_bounds: vec![1.0],
        }),
    }
}

/// how a timer ends: 0 observe_duration, 1 stop_and_record, 2 stop_and_discard, 3 dropped
fn end_shared(t: HistogramTimer, how: u8) -> (bool, f64) {
    match how {
        0 => { t.observe_duration(); (true, 0.0) }
        1 => (true, t.stop_and_record()),
        2 => (false, t.stop_and_discard()),
        _ => { drop(t); (true, 0.0) }
    }
}
fn end_local(t: LocalHistogramTimer, how: u8) -> (bool, f64) {
    match how {
        0 => { t.observe_duration(); (true, 0.0) }
        1 => (true, t.stop_and_record()),
        2 => (false, t.stop_and_discard()),
        _ => { drop(t); (true, 0.0) }
    }
}

/// One timer of a shared histogram ended in a symbolic way (4 ways).
#[cfg_attr(kani, kani::proof, kani::unwind(5), kani::stub(std::time::Instant::now, instant_now_stub))]
pub fn c18_shared_one_timer() {
    draw_clock(2);
    let how = any_u8_below(4);
    let h = hist1();
    let t = h.start_timer();
    assert!(h.get_sample_count() == 0, "C18 starting a timer records nothing");
    let (rec, v) = end_shared(t, how);
    assert!(h.get_sample_count() == rec as u64, "C18 exactly one observation per recorded timer, none per discarded");
    assert!(v >= 0.0, "C18 returned duration is non-negative");
    assert!(h.get_sample_sum() >= 0.0, "C18 recorded durations are non-negative");
    vcover!(how == 2, "c18.shared1: discarded");
    vcover!(how == 3, "c18.shared1: dropped");
    vcover!(how == 1 && v > 0.0, "c18.shared1: positive duration");
    vcover!(how == 1 && v == 0.0, "c18.shared1: clock went backwards or stood still -> saturates at 0");
    std::mem::forget(h);
    vcover!(true, "end of harness reached");
}

/// Two timers of one shared histogram: the first ends in a symbolic way, the second is ended
/// after or before it (symbolic order) by stop_and_record.
#[cfg_attr(kani, kani::proof, kani::unwind(5), kani::stub(std::time::Instant::now, instant_now_stub))]
pub fn c18_shared_two_timers() {
    draw_clock(4);
    let h1 = any_u8_below(4);
    let h = hist1();
    let t1 = h.start_timer();
    let t2 = h.start_timer();
    let (r1, v1, v2);
    if any_bool() {
        v2 = t2.stop_and_record();
        assert!(h.get_sample_count() == 1, "C18 exactly one observation per recorded timer");
        let e1 = end_shared(t1, h1);
        r1 = e1.0; v1 = e1.1;
    } else {
        let e1 = end_shared(t1, h1);
        assert!(h.get_sample_count() == e1.0 as u64, "C18 exactly one observation per recorded timer, none per discarded");
        v2 = t2.stop_and_record();
        r1 = e1.0; v1 = e1.1;
    }
    assert!(h.get_sample_count() == r1 as u64 + 1, "C18 exactly one observation per recorded timer, none per discarded");
    assert!(v1 >= 0.0 && v2 >= 0.0, "C18 returned duration is non-negative");
    assert!(h.get_sample_sum() >= 0.0, "C18 recorded durations are non-negative");
    vcover!(h1 == 2, "c18.shared2: first discarded");
    std::mem::forget(h);
    vcover!(true, "end of harness reached");
}

/// a timer of a local histogram ended in way `how` (concrete), then the local histogram is
/// flushed (or not) and dropped: exactly one observation reaches the shared histogram when the
/// timer recorded, none when it was discarded
fn local_timer_case(how: u8, flush_after: bool) {
    local_timer_case_buffered(how, flush_after, false)
}
/// `buffered`: the local histogram already holds one unflushed observation when the timer starts
/// (the timer must contribute exactly its own observation, not the buffered one a second time)
fn local_timer_case_buffered(how: u8, flush_after: bool, buffered: bool) {
    draw_clock(2);
    let h = hist1();
    let l = h.local();
    if buffered {
        l.observe(0.5);
    }
    let t = l.start_timer();
    let (rec, v) = end_local(t, how);
    assert!(v >= 0.0, "C18 returned duration is non-negative");
    if flush_after {
        l.flush();
    }
    drop(l);
    assert!(h.get_sample_count() == rec as u64 + buffered as u64, "C18 local timer: exactly one observation when recorded, none when discarded");
    assert!(h.get_sample_sum() >= 0.0, "C18 recorded durations are non-negative");
    std::mem::forget(h);
}
/// Local timer: observe_duration / stop_and_record (clock symbolic).
#[cfg_attr(kani, kani::proof, kani::unwind(5), kani::stub(std::time::Instant::now, instant_now_stub))]
pub fn c18_local_timer_recorded() {
    local_timer_case(0, false);
    local_timer_case(1, true);
    vcover!(true, "end of harness reached");
}
/// Local timer started while the local histogram holds an unflushed observation, then recorded:
/// the shared histogram ends with exactly the buffered observation plus the timer's.
#[cfg_attr(kani, kani::proof, kani::unwind(5), kani::stub(std::time::Instant::now, instant_now_stub))]
pub fn c18_local_timer_with_buffered_observation() {
    local_timer_case_buffered(1, false, true);
    vcover!(true, "end of harness reached");
}
/// Same, timer discarded: only the buffered observation arrives.
#[cfg_attr(kani, kani::proof, kani::unwind(5), kani::stub(std::time::Instant::now, instant_now_stub))]
pub fn c18_local_timer_discarded_with_buffered_observation() {
    local_timer_case_buffered(2, true, true);
    vcover!(true, "end of harness reached");
}
/// Local timer: stop_and_discard / dropped (clock symbolic).
#[cfg_attr(kani, kani::proof, kani::unwind(5), kani::stub(std::time::Instant::now, instant_now_stub))]
pub fn c18_local_timer_discarded_or_dropped() {
    local_timer_case(2, true);
    local_timer_case(3, false);
    vcover!(true, "end of harness reached");
}

/// `observe_closure_duration` (shared and local): one observation, closure result passed through.
#[cfg_attr(kani, kani::proof, kani::unwind(5), kani::stub(std::time::Instant::now, instant_now_stub))]
pub fn c18_observe_closure_duration() {
    draw_clock(4);
    let x = any_u64();
    let h = hist1();
    let y = h.observe_closure_duration(|| x);
    assert!(y == x, "C18 observe_closure_duration returns the closure's result");
    assert!(h.get_sample_count() == 1, "C18 observe_closure_duration contributes exactly one observation");
    let l = h.local();
    let z = l.observe_closure_duration(|| x ^ 1);
    assert!(z == x ^ 1, "C18 local observe_closure_duration returns the closure's result");
    assert!(l.get_sample_count() == 1, "C18 local observe_closure_duration contributes exactly one observation");
    l.flush();
    assert!(h.get_sample_count() == 2);
    assert!(h.get_sample_sum() >= 0.0, "C18 recorded durations are non-negative");
    std::mem::forget(l);
    std::mem::forget(h);
    vcover!(true, "end of harness reached");
}

pub fn dispatch(name: &str) -> Option<fn()> {
    Some(match name {
        "c18_shared_one_timer" => c18_shared_one_timer,
        "c18_shared_two_timers" => c18_shared_two_timers,
        "c18_local_timer_recorded" => c18_local_timer_recorded,
        "c18_local_timer_with_buffered_observation" => c18_local_timer_with_buffered_observation,
        "c18_local_timer_discarded_with_buffered_observation" => c18_local_timer_discarded_with_buffered_observation,
        "c18_local_timer_discarded_or_dropped" => c18_local_timer_discarded_or_dropped,
        "c18_observe_closure_duration" => c18_observe_closure_duration,
        _ => return None,
    })
}
