//! C06 — registry admission is exact and a failed registration leaves no trace.
//! Hosted in `crate::registry` (unit access to `RegistryCore`). Descriptor ids / dimension
//! hashes / names are chosen symbolically from small pools, so the admission logic is decided for
//! arbitrary hash values, not only for those FNV produces for particular strings. The registry's
//! maps are the abstract finite map (E6).
use crate::verif_incrate::common::*;
use super::*;
use crate::desc::Desc;

#[derive(Clone)]
struct Coll {
    descs: Vec<Desc>,
    tag: &'static str,
}
impl Collector for Coll {
    fn desc(&self) -> Vec<&Desc> {
        self.descs.iter().collect()
    }
    fn collect(&self) -> Vec<proto::MetricFamily> {
        let mut mf = proto::MetricFamily::default();
        mf.set_name(String::from(self.tag));
        mf.set_metric(vec![proto::Metric::default()]);
        vec![mf]
    }
}
#[derive(Clone, Copy)]
struct D {
    name: u8, // 0 = "a", 1 = "b"
    id: u64,
    dim: u64,
}
fn mk(d: D) -> Desc {
    Desc {
        fq_name: String::from(if d.name == 0 { "a" } else { "b" }),
        help: String::new(),
        const_label_pairs: Vec::new(),
        variable_labels: Vec::new(),
        id: d.id,
        dim_hash: d.dim,
    }
}
fn any_d() -> D {
    let name = any_u8();
    assume(name < 2);
    // ids are distinct powers of two so that sums of distinct id sets never collide
    let k = any_u8();
    assume(k < 3);
    let dim = any_u8();
    assume(dim < 2);
    D { name, id: 1u64 << k, dim: dim as u64 }
}

/// Reference registry (the statement of C06), over at most 8 descriptor slots.
#[derive(Clone, Copy)]
struct Model {
    live: [bool; 4],       // collector i currently registered
    dim_a: Option<u64>,    // dimension signature ever successfully registered under "a"
    dim_b: Option<u64>,
}
struct Pool {
    c: [[Option<D>; 2]; 4],
}
impl Pool {
    fn descs(&self, i: usize) -> Vec<Desc> {
        let mut v = Vec::new();
        if let Some(d) = self.c[i][0] { v.push(mk(d)); }
        if let Some(d) = self.c[i][1] { v.push(mk(d)); }
        v
    }
    fn boxed(&self, i: usize) -> Box<dyn Collector> {
        let tag = match i { 0 => "c0", 1 => "c1", 2 => "c2", _ => "c3" };
        Box::new(Coll { descs: self.descs(i), tag })
    }
    fn ids(&self, i: usize) -> u64 {
        let mut s = 0;
        if let Some(d) = self.c[i][0] { s |= d.id; }
        if let Some(d) = self.c[i][1] { s |= d.id; }
        s
    }
}
impl Model {
    fn live_ids(&self, p: &Pool) -> u64 {
        let mut s = 0;
        let mut i = 0;
        while i < 4 {
            if self.live[i] { s |= p.ids(i); }
            i += 1;
        }
        s
    }
    fn dim_of(&self, name: u8) -> Option<u64> {
        if name == 0 { self.dim_a } else { self.dim_b }
    }
    /// -> Some(true) AlreadyReg expected, Some(false) other error expected, None success
    fn register(&mut self, p: &Pool, i: usize) -> Option<bool> {
        let live = self.live_ids(p);
        let mut k = 0;
        let mut dim_conflict = false;
        let mut id_conflict = false;
        while k < 2 {
            if let Some(d) = p.c[i][k] {
                if live & d.id != 0 { id_conflict = true; }
                if let Some(h) = self.dim_of(d.name) { if h != d.dim { dim_conflict = true; } }
            }
            k += 1;
        }
        if id_conflict || dim_conflict {
            return Some(id_conflict && !dim_conflict);
        }
        k = 0;
        while k < 2 {
            if let Some(d) = p.c[i][k] {
                if d.name == 0 { self.dim_a = Some(d.dim); } else { self.dim_b = Some(d.dim); }
            }
            k += 1;
        }
        self.live[i] = true;
        None
    }
    fn unregister(&mut self, p: &Pool, i: usize) -> bool {
        // succeeds exactly for a currently registered collector (identified by its descriptor set)
        let mut j = 0;
        while j < 4 {
            if self.live[j] && p.ids(j) == p.ids(i) {
                self.live[j] = false;
                return true;
            }
            j += 1;
        }
        false
    }
}

/// the descriptor pool is well formed: equal ids imply equal names (an id is a hash of the name
/// and the const label values); the two descriptors of collector 2 are distinct and, when they
/// share a name, agree in dimension (collectors with internal conflicts are not in the pool)
fn pool() -> Pool {
    let p = Pool { c: [[Some(any_d()), None], [Some(any_d()), None], [Some(any_d()), Some(any_d())], [Some(any_d()), None]] };
    let all = [p.c[0][0].unwrap(), p.c[1][0].unwrap(), p.c[2][0].unwrap(), p.c[2][1].unwrap(), p.c[3][0].unwrap()];
    let mut i = 0;
    while i < 5 {
        let mut j = i + 1;
        while j < 5 {
            if all[i].id == all[j].id { assume(all[i].name == all[j].name); }
            j += 1;
        }
        i += 1;
    }
    assume(all[2].id != all[3].id);
    if all[2].name == all[3].name { assume(all[2].dim == all[3].dim); }
    p
}

fn history(n: usize) {
    let p = pool();
    let mut core = RegistryCore::default();
    let mut m = Model { live: [false; 4], dim_a: None, dim_b: None };
    let mut step = 0;
    let mut refused = false;
    let mut after_refusal_ok = false;
    while step < n {
        let reg = any_bool();
        let i = any_u8() as usize;
        assume(i < 4);
        if reg {
            let want = m.register(&p, i);
            let got = core.register(p.boxed(i));
            match want {
                None => {
                    if refused { after_refusal_ok = true; }
                    assert!(got.is_ok(), "C06 registration succeeds when no descriptor is equal to a registered one and none disagrees in dimension with one ever registered under the same name");
                }
                Some(already) => {
                    refused = true;
                    assert!(got.is_err(), "C06 registration fails when a descriptor is already registered or disagrees in dimension");
                    if already {
                        assert!(matches!(got, Err(Error::AlreadyReg)), "C06 AlreadyReg when an equal descriptor is registered");
                    }
                }
            }
            std::mem::forget(got);
        } else {
            let want = m.unregister(&p, i);
            let got = core.unregister(p.boxed(i));
            assert!(got.is_ok() == want, "C06 unregister succeeds exactly for a currently registered collector");
            std::mem::forget(got);
        }
        step += 1;
    }
    // observable state agrees with the model
    let mut live = 0;
    let mut i = 0;
    while i < 4 {
        if m.live[i] { live += 1; }
        i += 1;
    }
    assert!(core.collectors_by_id.len() == live, "C06 exactly the successfully registered collectors are held");
    vcover!(after_refusal_ok, "c06.history: a registration succeeds after an earlier one was refused");
    std::mem::forget(core);
    std::mem::forget(p);
}

/// Symbolic history of 3 register/unregister calls over a pool of 4 collectors.
#[cfg_attr(kani, kani::proof, kani::unwind(6), kani::stub(std::fmt::format, fmt_stub))]
pub fn c06_history_3ops() {
    history(3);
}
/// Symbolic history of 4 calls.
#[cfg_attr(kani, kani::proof, kani::unwind(6), kani::stub(std::fmt::format, fmt_stub))]
pub fn c06_history_4ops() {
    history(4);
}

/// A refused multi-descriptor registration leaves no trace: fully symbolic 64-bit ids and
/// dimension hashes. [b:x] registered; [a:y, b:z] refused (z != x); then "a" with any dimension
/// must be admitted, and the refused collector's samples do not appear in gather().
#[cfg_attr(kani, kani::proof, kani::unwind(6), kani::stub(std::fmt::format, fmt_stub))]
pub fn c06_refused_registration_leaves_no_trace() {
    let mut core = RegistryCore::default();
    let (i1, i2, i3, i4) = (any_u64(), any_u64(), any_u64(), any_u64());
    let (x, y, z, w) = (any_u64(), any_u64(), any_u64(), any_u64());
    assume(i1 != i2 && i1 != i3 && i1 != i4 && i2 != i3 && i2 != i4 && i3 != i4);
    assume(i2.wrapping_add(i3) != i1 && i4 != i2.wrapping_add(i3));
    assume(z != x);
    let d = |name: &str, id: u64, dim: u64| Desc {
        fq_name: String::from(name), help: String::new(), const_label_pairs: Vec::new(), variable_labels: Vec::new(), id, dim_hash: dim,
    };
    let r1 = core.register(Box::new(Coll { descs: vec![d("b", i1, x)], tag: "c0" }));
    assert!(r1.is_ok(), "C06 first registration succeeds");
    let r2 = core.register(Box::new(Coll { descs: vec![d("a", i2, y), d("b", i3, z)], tag: "c1" }));
    assert!(r2.is_err(), "C06 collector with a descriptor disagreeing in dimension is refused");
    let r3 = core.register(Box::new(Coll { descs: vec![d("a", i4, w)], tag: "c2" }));
    assert!(r3.is_ok(), "C06 after a refused registration the registry behaves as if the call had never been made");
    assert!(core.collectors_by_id.len() == 2);
    std::mem::forget(core);
    std::mem::forget(r2);
}

/// Unregister then register again; samples disappear from and return to gather().
#[cfg_attr(kani, kani::proof, kani::unwind(6), kani::stub(std::fmt::format, fmt_stub))]
pub fn c06_unregister_then_reregister_gather() {
    let mut core = RegistryCore::default();
    let (i1, i2, x) = (any_u64(), any_u64(), any_u64());
    assume(i1 != i2);
    let d = |name: &str, id: u64, dim: u64| Desc {
        fq_name: String::from(name), help: String::new(), const_label_pairs: Vec::new(), variable_labels: Vec::new(), id, dim_hash: dim,
    };
    let c0 = Coll { descs: vec![d("a", i1, x)], tag: "c0" };
    let c1 = Coll { descs: vec![d("b", i2, x)], tag: "c1" };
    assert!(core.register(Box::new(c0.clone())).is_ok());
    assert!(core.register(Box::new(c1.clone())).is_ok());
    assert!(matches!(core.register(Box::new(c0.clone())), Err(Error::AlreadyReg)), "C06 same collector twice is AlreadyReg");
    assert!(core.unregister(Box::new(c0.clone())).is_ok(), "C06 unregister of a registered collector succeeds");
    assert!(core.unregister(Box::new(c0.clone())).is_err(), "C06 unregister of an unregistered collector fails");
    let g = core.gather();
    assert!(g.len() == 1 && g[0].name() == "c1", "C06 samples of an unregistered collector no longer appear");
    assert!(core.register(Box::new(c0.clone())).is_ok(), "C06 an unregistered collector can be registered again");
    let g2 = core.gather();
    assert!(g2.len() == 2, "C06 re-registered collector is gathered again");
    std::mem::forget(g);
    std::mem::forget(g2);
    std::mem::forget(core);
}

pub fn dispatch(name: &str) -> Option<fn()> {
    Some(match name {
        "c06_history_3ops" => c06_history_3ops,
        "c06_history_4ops" => c06_history_4ops,
        "c06_refused_registration_leaves_no_trace" => c06_refused_registration_leaves_no_trace,
        "c06_unregister_then_reregister_gather" => c06_unregister_then_reregister_gather,
        _ => return None,
    })
}
