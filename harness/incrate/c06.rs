//! C06 — registry admission is exact and a failed registration leaves no trace.
//! Hosted in `crate::registry` (unit access to `RegistryCore`).
//!
//! Inductive shape ("one step from an arbitrary state"): the registry state — the set of live
//! descriptor ids, the name -> dimension map of everything ever registered, the live collectors —
//! is built directly with **symbolic contents** (64-bit ids and dimension hashes, names chosen
//! symbolically among equal-length strings) and concrete sizes; then one `register` /
//! `unregister` with a collector whose descriptors are symbolic as well; the result and the
//! complete post-state are compared with the statement. A history of any length only ever
//! passes through such states. The registry's maps are the abstract finite map (E6).
use crate::verif_incrate::common::*;
use super::*;
use crate::desc::Desc;

struct Coll {
    descs: Vec<Desc>,
}
impl Collector for Coll {
    fn desc(&self) -> Vec<&Desc> {
        self.descs.iter().collect()
    }
    fn collect(&self) -> Vec<proto::MetricFamily> {
        Vec::new()
    }
}
/// name k of the pool {a, b, c} (built from a literal: lengths and contents stay concrete; the
/// cases are enumerated by the harnesses, ids and dimension hashes are the symbolic part)
fn name(k: u8) -> String {
    String::from(name_str(k))
}
fn mk(name: String, id: u64, dim: u64) -> Desc {
    Desc { fq_name: name, help: String::new(), const_label_pairs: Vec::new(), variable_labels: Vec::new(), id, dim_hash: dim }
}
struct Pre {
    ids: [u64; 2],
    names: [u8; 2],
    dims: [u64; 2],
    ckey: u64,
}
/// arbitrary pre-state: two live descriptor ids, two names with registered dimensions, one live
/// collector (key = sum of its ids, as `register` computes it)
fn pre_state(core: &mut RegistryCore) -> Pre {
    let ids = [any_u64(), any_u64()];
    assume(ids[0] != ids[1]);
    core.desc_ids.insert(ids[0]);
    core.desc_ids.insert(ids[1]);
    // names "a" and "b" have a recorded dimension, "c" has none
    let (n0, n1) = (0u8, 1u8);
    let dims = [any_u64(), any_u64()];
    core.dim_hashes_by_name.insert(name(n0), dims[0]);
    core.dim_hashes_by_name.insert(name(n1), dims[1]);
    let ckey = ids[0].wrapping_add(ids[1]);
    core.collectors_by_id.insert(ckey, Box::new(Coll { descs: Vec::new() }));
    Pre { ids, names: [n0, n1], dims, ckey }
}
fn dim_of(p: &Pre, name: u8) -> Option<u64> {
    if p.names[0] == name { Some(p.dims[0]) } else if p.names[1] == name { Some(p.dims[1]) } else { None }
}
fn state_unchanged(core: &RegistryCore, p: &Pre) -> bool {
    core.desc_ids.len() == 2 && core.desc_ids.contains(&p.ids[0]) && core.desc_ids.contains(&p.ids[1])
        && core.dim_hashes_by_name.len() == 2 && core.collectors_by_id.len() == 1 && core.collectors_by_id.contains_key(&p.ckey)
}
fn name_str(k: u8) -> &'static str {
    if k == 0 { "a" } else if k == 1 { "b" } else { "c" }
}

fn one_desc_case(n: u8) {
    let mut core = RegistryCore::default();
    let p = pre_state(&mut core);
    let (id, dim) = (any_u64(), any_u64());
    assume(id != p.ckey); // collector-key collision = 64-bit hash collision, outside the statement
    let r = core.register(Box::new(Coll { descs: vec![mk(name(n), id, dim)] }));
    let id_taken = id == p.ids[0] || id == p.ids[1];
    let dim_conflict = match dim_of(&p, n) { Some(h) => h != dim, None => false };
    assert!(r.is_ok() == (!id_taken && !dim_conflict), "C06 registration succeeds exactly when no descriptor equals a registered one and none disagrees in dimension");
    if id_taken && !dim_conflict {
        assert!(matches!(r, Err(Error::AlreadyReg)), "C06 AlreadyReg when an equal descriptor is registered");
    }
    if r.is_err() {
        assert!(state_unchanged(&core, &p), "C06 a failed registration leaves no trace");
    } else {
        assert!(core.desc_ids.len() == 3 && core.desc_ids.contains(&id), "C06 registered descriptor becomes live");
        assert!(core.collectors_by_id.len() == 2, "C06 registered collector is held");
        assert!(core.dim_hashes_by_name.get(name_str(n)) == Some(&dim), "C06 dimension recorded under the name");
    }
    std::mem::forget(r);
    std::mem::forget(core);
}
/// register(collector with ONE descriptor, symbolic id and dimension) from an arbitrary state:
/// under a name with a recorded dimension ("a") and under a new name ("c").
#[cfg_attr(kani, kani::proof, kani::unwind(6), kani::stub(std::fmt::format, fmt_stub))]
pub fn c06_register_one_descriptor_step() {
    one_desc_case(0);
    one_desc_case(2);
    vcover!(true, "end of harness reached");
}

fn two_desc_case(n1: u8, n2: u8) {
    let mut core = RegistryCore::default();
    let p = pre_state(&mut core);
    let (i1, d1, i2, d2) = (any_u64(), any_u64(), any_u64(), any_u64());
    // pool: descriptors of one collector are distinct and agree in dimension when they share a name
    assume(i1 != i2);
    assume(n1 != n2 || d1 == d2);
    assume(i1.wrapping_add(i2) != p.ckey);
    let r = core.register(Box::new(Coll { descs: vec![mk(name(n1), i1, d1), mk(name(n2), i2, d2)] }));
    let taken = |id: u64| id == p.ids[0] || id == p.ids[1];
    let conflict = |n: u8, d: u64| match dim_of(&p, n) { Some(h) => h != d, None => false };
    let ok = !taken(i1) && !taken(i2) && !conflict(n1, d1) && !conflict(n2, d2);
    assert!(r.is_ok() == ok, "C06 registration succeeds exactly when no descriptor equals a registered one and none disagrees in dimension");
    if r.is_err() {
        assert!(state_unchanged(&core, &p), "C06 a failed registration leaves no trace");
    } else {
        assert!(core.desc_ids.len() == 4 && core.collectors_by_id.len() == 2, "C06 registered descriptors become live");
        assert!(core.dim_hashes_by_name.get(name_str(n1)) == Some(&d1) && core.dim_hashes_by_name.get(name_str(n2)) == Some(&d2), "C06 dimensions recorded");
    }
    std::mem::forget(r);
    std::mem::forget(core);
}
/// register(collector with TWO descriptors) from an arbitrary state: first descriptor under a new
/// name, second under a name with a recorded dimension (the second may be the one that fails
/// after the first was already examined).
#[cfg_attr(kani, kani::proof, kani::unwind(6), kani::stub(std::fmt::format, fmt_stub))]
pub fn c06_register_two_descriptors_new_then_known() {
    two_desc_case(2, 1);
    vcover!(true, "end of harness reached");
}
/// register(collector with TWO descriptors): both under known names / both under the same new name.
#[cfg_attr(kani, kani::proof, kani::unwind(6), kani::stub(std::fmt::format, fmt_stub))]
pub fn c06_register_two_descriptors_other_shapes() {
    two_desc_case(0, 1);
    two_desc_case(2, 2);
    vcover!(true, "end of harness reached");
}

/// unregister of the live collector from an arbitrary state: succeeds, its ids are free again
/// (a descriptor with one of them can be registered), the name -> dimension map is untouched.
#[cfg_attr(kani, kani::proof, kani::unwind(6), kani::stub(std::fmt::format, fmt_stub))]
pub fn c06_unregister_live_collector_step() {
    let mut core = RegistryCore::default();
    let p = pre_state(&mut core);
    let swap = any_bool();
    let (i1, i2) = if swap { (p.ids[1], p.ids[0]) } else { (p.ids[0], p.ids[1]) };
    let r = core.unregister(Box::new(Coll { descs: vec![mk(name(0), i1, 0), mk(name(1), i2, 0)] }));
    assert!(r.is_ok(), "C06 unregister succeeds for a currently registered collector");
    assert!(core.collectors_by_id.len() == 0 && core.desc_ids.len() == 0, "C06 its descriptors are free again");
    assert!(core.dim_hashes_by_name.len() == 2, "C06 dimensions ever registered are kept");
    let again = core.register(Box::new(Coll { descs: vec![mk(name(0), i1, p.dims[0])] }));
    assert!(again.is_ok(), "C06 an unregistered collector's descriptor can be registered again");
    std::mem::forget(again);
    std::mem::forget(r);
    std::mem::forget(core);
    vcover!(true, "end of harness reached");
}
/// unregister of a collector that is not registered (symbolic ids): fails, nothing changes.
#[cfg_attr(kani, kani::proof, kani::unwind(6), kani::stub(std::fmt::format, fmt_stub))]
pub fn c06_unregister_unknown_collector_step() {
    let mut core = RegistryCore::default();
    let p = pre_state(&mut core);
    let (i1, i2) = (any_u64(), any_u64());
    assume(i1 != i2);
    assume(i1.wrapping_add(i2) != p.ckey); // a different descriptor set with the same key is a hash collision
    let r = core.unregister(Box::new(Coll { descs: vec![mk(name(0), i1, 0), mk(name(1), i2, 0)] }));
    assert!(r.is_err(), "C06 unregister fails for a collector that is not registered");
    assert!(state_unchanged(&core, &p), "C06 a failed unregister changes nothing");
    std::mem::forget(r);
    std::mem::forget(core);
    vcover!(true, "end of harness reached");
}

/// Registering the same collector twice is AlreadyReg; gather() shows exactly live collectors.
#[cfg_attr(kani, kani::proof, kani::unwind(6), kani::stub(std::fmt::format, fmt_stub))]
pub fn c06_same_collector_twice_and_gather() {
    struct Fam(Desc, &'static str);
    impl Collector for Fam {
        fn desc(&self) -> Vec<&Desc> { vec![&self.0] }
        fn collect(&self) -> Vec<proto::MetricFamily> {
            let mut mf = proto::MetricFamily::default();
            mf.set_name(String::from(self.1));
            mf.set_metric(vec![proto::Metric::default()]);
            vec![mf]
        }
    }
    let mut core = RegistryCore::default();
    let (i1, i2, x) = (any_u64(), any_u64(), any_u64());
    assume(i1 != i2);
    assert!(core.register(Box::new(Fam(mk(String::from("a"), i1, x), "a"))).is_ok());
    assert!(core.register(Box::new(Fam(mk(String::from("b"), i2, x), "b"))).is_ok());
    assert!(matches!(core.register(Box::new(Fam(mk(String::from("a"), i1, x), "a"))), Err(Error::AlreadyReg)), "C06 same collector twice is AlreadyReg");
    assert!(core.unregister(Box::new(Fam(mk(String::from("a"), i1, x), "a"))).is_ok(), "C06 unregister of a registered collector succeeds");
    let g = core.gather();
    assert!(g.len() == 1 && g[0].name() == "b", "C06 samples of an unregistered collector no longer appear in gather()");
    std::mem::forget(g);
    std::mem::forget(core);
    vcover!(true, "end of harness reached");
}

pub fn dispatch(name: &str) -> Option<fn()> {
    Some(match name {
        "c06_register_one_descriptor_step" => c06_register_one_descriptor_step,
        "c06_register_two_descriptors_new_then_known" => c06_register_two_descriptors_new_then_known,
        "c06_register_two_descriptors_other_shapes" => c06_register_two_descriptors_other_shapes,
        "c06_unregister_live_collector_step" => c06_unregister_live_collector_step,
        "c06_unregister_unknown_collector_step" => c06_unregister_unknown_collector_step,
        "c06_same_collector_twice_and_gather" => c06_same_collector_twice_and_gather,
        _ => return None,
    })
}
