//! C17 — fallible APIs report bad input as Err and do not panic (Kani's panic / unwrap /
//! unimplemented / index / overflow reachability checks are the oracle). Hosted in
//! `crate::encoder::text`. The non-encoder entry points of the statement are covered by the
//! harnesses of C05 (vector lookups), C06 (register / unregister), C08 (bucket helpers,
//! histogram constructors) and C09 (metric constructors), which run with the same checks on.
use crate::verif_incrate::common::*;
use super::*;
use crate::encoder::Encoder;
use crate::proto::{Bucket, Counter, Gauge, Histogram, Metric, MetricFamily, MetricType, Quantile, Summary};

/// `<f64 as Display>::fmt` -> an injective marker of the bit pattern (Grisu/Dragon on a symbolic
/// or even concrete f64 is out of reach of bounded unwinding; the rendering of numbers is std's).
pub fn f64_display_marker(v: &f64, f: &mut std::fmt::Formatter<'_>) -> std::fmt::Result {
    let bits = v.to_bits();
    let mut buf = [0u8; 16];
    let mut i = 0;
    while i < 16 {
        let nib = ((bits >> (60 - 4 * i)) & 0xf) as u8;
        buf[i] = if nib < 10 { b'0' + nib } else { b'a' + (nib - 10) };
        i += 1;
    }
    f.write_str(unsafe { std::str::from_utf8_unchecked(&buf) })
}
/// `crate::encoder::text::find_first_occurence` -> naive byte search (memchr dispatches on CPU
/// features through `cpuid`, which Kani rejects).
pub fn naive_first(v: &str, q: bool) -> Option<usize> {
    let h = v.as_bytes();
    let mut i = 0;
    while i < h.len() {
        if h[i] == b'\\' || h[i] == b'\n' || (q && h[i] == b'"') {
            return Some(i);
        }
        i += 1;
    }
    None
}

fn family(ty: MetricType, with_metric: bool, name: &str) -> MetricFamily {
    let mut mf = MetricFamily::default();
    mf.set_name(String::from(name));
    mf.set_field_type(ty);
    if with_metric {
        let mut m = Metric::default();
        match ty {
            MetricType::COUNTER => { let mut c = Counter::default(); c.set_value(1.0); m.set_counter(c); }
            MetricType::GAUGE => { let mut g = Gauge::default(); g.set_value(1.0); m.set_gauge(g); }
            MetricType::HISTOGRAM => {
                let mut h = Histogram::default();
                h.set_sample_count(1);
                h.set_sample_sum(1.0);
                let mut b = Bucket::default();
                b.set_upper_bound(1.0);
                b.set_cumulative_count(1);
                h.set_bucket(vec![b]);
                m.set_histogram(h);
            }
            MetricType::SUMMARY => {
                let mut s = Summary::default();
                s.set_sample_count(1);
                s.set_sample_sum(1.0);
                let mut q = Quantile::default();
                q.set_quantile(0.5);
                q.set_value(1.0);
                s.set_quantile(vec![q]);
                m.set_summary(s);
            }
            MetricType::UNTYPED => {}
        }
        mf.set_metric(vec![m]);
    }
    mf
}
fn encode_returns(ty: MetricType) {
    let mf = family(ty, true, "a");
    let mut buf = String::new();
    let r = TextEncoder::new().encode_utf8(&[mf], &mut buf);
    // reaching this point means the call returned (a reachable panic! / unimplemented!() is a failed check)
    if ty == MetricType::UNTYPED {
        assert!(r.is_err(), "C17 TextEncoder reports an unsupported family type as Err");
    } else {
        assert!(r.is_ok(), "C17 TextEncoder encodes a well-formed family");
    }
    std::mem::forget(r);
    std::mem::forget(buf);
}

/// TextEncoder on an UNTYPED family with one sample: returns Err, does not panic.
#[cfg_attr(kani, kani::proof, kani::unwind(18),
    kani::stub(std::fmt::format, fmt_stub),
    kani::stub(crate::encoder::text::find_first_occurence, naive_first),
    kani::stub(<f64 as std::fmt::Display>::fmt, f64_display_marker))]
pub fn c17_text_encoder_untyped_family() {
    encode_returns(MetricType::UNTYPED);
    vcover!(true, "end of harness reached");
}
/// TextEncoder on counter and gauge families: returns Ok, does not panic.
#[cfg_attr(kani, kani::proof, kani::unwind(18),
    kani::stub(std::fmt::format, fmt_stub),
    kani::stub(crate::encoder::text::find_first_occurence, naive_first),
    kani::stub(<f64 as std::fmt::Display>::fmt, f64_display_marker))]
pub fn c17_text_encoder_counter_gauge() {
    encode_returns(MetricType::COUNTER);
    encode_returns(MetricType::GAUGE);
    vcover!(true, "end of harness reached");
}
/// TextEncoder on histogram and summary families: returns Ok, does not panic.
#[cfg_attr(kani, kani::proof, kani::unwind(18),
    kani::stub(std::fmt::format, fmt_stub),
    kani::stub(crate::encoder::text::find_first_occurence, naive_first),
    kani::stub(<f64 as std::fmt::Display>::fmt, f64_display_marker))]
pub fn c17_text_encoder_histogram_summary() {
    encode_returns(MetricType::HISTOGRAM);
    encode_returns(MetricType::SUMMARY);
    vcover!(true, "end of harness reached");
}
/// Families without a name or without samples are refused with Err by both encoders' shared
/// check, for every family type.
#[cfg_attr(kani, kani::proof, kani::unwind(6),
    kani::stub(std::fmt::format, fmt_stub))]
pub fn c17_family_without_name_or_samples_is_err() {
    let k = any_u8();
    assume(k < 5);
    let ty = match k { 0 => MetricType::COUNTER, 1 => MetricType::GAUGE, 2 => MetricType::SUMMARY, 3 => MetricType::UNTYPED, _ => MetricType::HISTOGRAM };
    let no_metric = family(ty, false, "a");
    let r1 = crate::encoder::check_metric_family(&no_metric);
    assert!(r1.is_err(), "C17 a family without samples is refused");
    let mut buf = String::new();
    let r2 = TextEncoder::new().encode_utf8(&[no_metric], &mut buf);
    assert!(r2.is_err() && buf.is_empty(), "C17 TextEncoder refuses a family without samples and writes nothing");
    let no_name = family(MetricType::UNTYPED, true, "");
    let r3 = crate::encoder::check_metric_family(&no_name);
    assert!(r3.is_err(), "C17 a family without a name is refused");
    std::mem::forget((r1, r2, r3));
    std::mem::forget(no_name);
    vcover!(true, "end of harness reached");
}

pub fn dispatch(name: &str) -> Option<fn()> {
    Some(match name {
        "c17_text_encoder_untyped_family" => c17_text_encoder_untyped_family,
        "c17_text_encoder_counter_gauge" => c17_text_encoder_counter_gauge,
        "c17_text_encoder_histogram_summary" => c17_text_encoder_histogram_summary,
        "c17_family_without_name_or_samples_is_err" => c17_family_without_name_or_samples_is_err,
        _ => return None,
    })
}
