#!/usr/bin/env python3
"""Regenerate MANIFEST.json from driver/props.py (claimed properties) + the not-applicable list."""
import json, os, sys
sys.path.insert(0, os.path.dirname(os.path.abspath(__file__)))
from props import PROPS, NOT_APPLICABLE, MANIFEST_TEXT, CLAIMED

V = os.path.dirname(os.path.dirname(os.path.abspath(__file__)))
checks = []
for pid in sorted(CLAIMED):
    t = MANIFEST_TEXT[pid]
    checks.append(dict(
        property_id=pid,
        quick_cmd=f"./check {pid} quick",
        thorough_cmd=f"./check {pid} thorough",
        evidence_file=f"/verif/evidence/{pid}.json",
        replay_cmd_template=f"./check {pid} --replay {{path}}",
        engine=t.get("engine", "kani-incrate"),
        level_claimed=dict(category="other", text=t["level"], design_ref=t.get("design_ref", "DESIGN.md §4 " + pid)),
        level_note=t["note"],
        technique=t["technique"],
    ))
m = dict(
    version=1,
    setup_cmd="./setup.sh",
    hooks=dict(
        guard="prometheus_verif",
        enable="RUSTFLAGS='--cfg prometheus_verif' PROMETHEUS_VERIF_INCRATE=<generated dir> cargo kani -p prometheus (the driver sets both; harness sources stay in /verif)",
        baseline_off_cmd="cd /repo && cargo test --workspace --no-fail-fast --offline",
        source_commits=json.load(open(os.path.join(V, "hook_commits.json"))),
        add_only=True,
    ),
    engines=[
        dict(name="kani-incrate", path="/verif/driver/vdriver.py", serves_properties=sorted(CLAIMED),
             kind_free_text="Kani 0.68 / CBMC 6.11 / CaDiCaL bounded model checking of the crate compiled from /repo, harness modules compiled inside the crate through cfg(prometheus_verif) include hooks; counterexamples are replayed natively (/verif/replay)"),
    ],
    checks=checks,
    not_applicable=[dict(property_id=k, reason=v) for k, v in sorted(NOT_APPLICABLE.items())],
    notes="See DESIGN.md. Exit 2 of a check means inconclusive (cap hit, vacuous harness, counterexample that does not reproduce natively): never a pass and never a VIOLATION.",
)
json.dump(m, open(os.path.join(V, "MANIFEST.json"), "w"), indent=1)
print("wrote MANIFEST.json with", len(checks), "checks,", len(m["not_applicable"]), "not applicable")
