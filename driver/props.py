"""Per-property configuration: which harness files are compiled into which module of the crate,
which harnesses belong to which tier, caps, and the text that goes into the evidence."""

PROPS = {}

PROPS["C08"] = dict(
    hosts={"histogram": ["c08.rs"]},
    jobs=6,
    harnesses={
        "c08_accept_len1": dict(cap=120),
        "c08_accept_len2": dict(cap=120),
        "c08_accept_len3": dict(cap=180),
        "c08_accept_empty_selects_default": dict(cap=120),
        "c08_accept_public_len2": dict(cap=300),
        "c08_core_2bounds_1obs": dict(cap=600),
        "c08_core_2bounds_2obs": dict(cap=1500, tier="thorough"),
        "c08_count_1bound_2obs": dict(cap=1500, tier="experimental"),
        "c08_count_concrete_2obs": dict(cap=1500, tier="thorough"),
        "c08_count_local_2bounds_2obs": dict(cap=1500, tier="experimental"),
        "c08_linear_buckets": dict(cap=1200, tier="thorough"),
        "c08_exponential_buckets_errors": dict(cap=300),
        "c08_exponential_buckets_values": dict(cap=1200, tier="experimental"),
    },
    functions=["histogram::check_and_adjust_buckets", "HistogramCore::new", "HistogramCore::observe", "HistogramCore::proto",
               "HistogramCore::sample_sum", "HistogramCore::sample_count", "LocalHistogramCore::observe", "LocalHistogramCore::flush",
               "AtomicF64::inc_by", "AtomicF64::swap", "AtomicU64::inc_by", "ShardAndCount::*", "linear_buckets", "exponential_buckets",
               "Histogram::with_opts", "Histogram::metric"],
    bounds="bucket lists of concrete length 0..3 with every bound an unrestricted f64 bit pattern; 1-2 observations, each an unrestricted f64 bit pattern; unwind 4-14",
    outside="more than 3 bounds / 2 observations; HistogramVec children (same HistogramCore, built by the same constructor); exponential_buckets with a fully symbolic factor and count > 1 (symbolic x symbolic f64 multiplication does not finish)",
    assumptions=["error-message formatting (std::fmt::format) is stubbed to an empty string",
                 "Desc::new is stubbed in the public-constructor harnesses (the descriptor is not the subject of C08)",
                 "Kani's 'NaN on addition/multiplication' check class is ignored: producing NaN is defined f64 behaviour the property requires"],
)


PROPS["C01"] = dict(
    hosts={"root": ["c01.rs"]},
    cfgs=["prometheus_verif_sync"],
    env={"PROMETHEUS_VERIF_K": "3"},
    jobs=6,
    harnesses={
        "c01_float_inc_flush_read": dict(cap=900),
        "c01_int_inc_flush_read": dict(cap=900),
        "c01_float_two_writers": dict(cap=600),
        "c01_int_reset": dict(cap=600),
    },
    functions=["AtomicF64::inc_by (load / compare_exchange_weak loop)", "AtomicF64::get", "AtomicU64::inc_by (fetch_add)", "AtomicU64::get/set",
               "Value::inc_by/inc/get/set", "GenericCounter::inc_by/inc/get/reset/local", "GenericLocalCounter::inc_by/flush"],
    bounds="3 threads, <= 3 operations each, K = 3 rounds (<= 2 pre-emptions per thread, round-robin), increments any u8 (exact in f64), unwind 6",
    outside="more than K-1 pre-emptions per thread, more threads/operations; weak-memory effects (SC per location and RMW atomicity are all the property needs and hold for every ordering)",
    assumptions=["shared atomics replaced by crate::verif_sync (K-version cells; Lal-Reps sequentialisation) through the cfg(prometheus_verif_sync) hook",
                 "compare_exchange_weak modelled as strong; a failed CAS repeated in the same round by the same thread is pruned as a stutter step",
                 "Desc::new stubbed (descriptor not the subject)"],
)


PROPS["C11"] = dict(
    hosts={"root": ["c11.rs"]},
    cfgs=["prometheus_verif_sync"],
    env={"PROMETHEUS_VERIF_K": "3"},
    jobs=6,
    harnesses={
        "c11_int_2x2_symbolic_ops": dict(cap=1200),
        "c11_float_add_get_vs_set_sub": dict(cap=1200),
        "c11_float_inc_dec_vs_add_sub": dict(cap=1200),
        "c11_float_sub_is_add_neg": dict(cap=600),
    },
    functions=["AtomicF64::set/get/inc_by/dec_by", "AtomicI64::set/get/inc_by/dec_by", "Value::set/inc/dec/inc_by/dec_by/get", "GenericGauge::set/inc/dec/add/sub/get"],
    bounds="2 threads x 2 operations, K = 3 rounds, operands integers in [-4, 4] (exact in f64); sequential law over all f64 bit patterns; unwind 6",
    outside="3 threads; more than 2 pre-emptions per thread; a torn 64-bit store cannot be expressed against an atomic 64-bit API",
    assumptions=["shared atomics replaced by crate::verif_sync (Lal-Reps K-version cells)", "linearizability oracle = disjunction over the 6 interleavings of two 2-operation sequences, with (round, thread) real-time order", "Desc::new stubbed"],
)


PROPS["C09"] = dict(
    hosts={"desc": ["c09.rs"], "registry": ["c09b.rs"]},
    cfgs=["prometheus_verif_map"],
    jobs=6,
    harnesses={
        "c09_metric_name_regex_3chars": dict(cap=900),
        "c09_label_name_regex_3chars": dict(cap=900),
        "c09_desc_new_checks_names": dict(cap=1200),
        "c09_desc_new_rejects_duplicate_label_names": dict(cap=1800),
        "c09_desc_new_two_const_one_variable": dict(cap=5400, tier="experimental"),
        "c09_desc_new_three_variable_labels": dict(cap=2400),
        "c09_histogram_rejects_le_variable": dict(cap=1200),
        "c09_histogram_rejects_le_const": dict(cap=1200),
        "c09_histogram_accepts_other_labels": dict(cap=1200),
        "c09_registry_prefix_and_label_names_validated": dict(cap=1800),
        "c09_registry_common_label_clash_refused": dict(cap=1800),
    },
    functions=["desc::is_valid_metric_name", "desc::is_valid_label_name", "desc::is_valid_ident", "Desc::new", "histogram::check_bucket_label", "HistogramCore::new"],
    bounds="names of <= 3 arbitrary Unicode scalar values (unit level), <= 2 in Desc::new; label-name pools of 6 names; <= 1 const + 2 variable labels",
    outside="longer names; more labels",
    assumptions=["std::fmt::format stubbed in Desc::new harnesses (error text only)", "const-label map is crate::verif_map (abstract finite map) via cfg(prometheus_verif_map)"],
)


PROPS["C05"] = dict(
    hosts={"vec": ["c05.rs"], "counter": ["c05b.rs"]},
    cfgs=["prometheus_verif_map"],
    jobs=6,
    harnesses={
        "c05_slice_form_child_key_injective": dict(cap=900),
        "c05_map_form_matches_slice_form": dict(cap=1200),
        "c05_wrong_cardinality_is_an_error": dict(cap=1200),
        "c05_wrong_names_are_an_error": dict(cap=1200),
        "c05_get_or_create_two_requests": dict(cap=2400),
        "c05_child_exposes_values_with_const_labels": dict(cap=1200),
    },
    functions=["MetricVecCore::hash_label_values", "MetricVecCore::hash_labels", "MetricVecCore::get_label_values", "MetricVecCore::get_metric_with_label_values",
               "MetricVecCore::get_metric_with", "MetricVecCore::get_or_create_metric", "value::make_label_pairs", "Value::new", "GenericCounter::inc/get/metric"],
    bounds="2 declared labels; label values = symbolic strings of 0..=2 bytes (ASCII or one 2-byte UTF-8 scalar), 0..=1 byte in the get-or-create harness; two requests; unwind 5",
    outside="longer values, more labels; collisions of the real 64-bit FNV-1a (the property is stated up to them)",
    assumptions=["E4: FnvHasher::write replaced by an injective packing of the byte stream (<= 7 bytes), so hash equality == stream equality",
                 "E6: the children map and the label map are crate::verif_map (abstract finite map)", "Desc::new stubbed (keeps variable labels and const pairs)",
                 "parking_lot slow paths stubbed to assume(false) (unreachable sequentially; avoids a Kani ICE)"],
)


PROPS["C06"] = dict(
    hosts={"registry": ["c06.rs"]},
    cfgs=["prometheus_verif_map"],
    jobs=2,
    harnesses={
        "c06_register_one_descriptor_step": dict(cap=1800),
        "c06_register_two_descriptors_new_then_known": dict(cap=2400),
        "c06_register_two_descriptors_other_shapes": dict(cap=3600, tier="experimental"),
        "c06_unregister_live_collector_step": dict(cap=3600, tier="experimental"),
        "c06_unregister_unknown_collector_step": dict(cap=3600, tier="experimental"),
        "c06_same_collector_twice_and_gather": dict(cap=5400, tier="experimental"),
    },
    functions=["RegistryCore::register", "RegistryCore::unregister", "RegistryCore::gather"],
    bounds="one register / unregister step from an ARBITRARY registry state of fixed shape (2 live descriptor ids, 2 names with recorded dimensions, 1 live collector; all ids and dimension hashes symbolic 64-bit values, names symbolic in {a,b,c}); collectors with 1 or 2 symbolic descriptors; unwind 6",
    outside="states with more entries (the per-entry logic is uniform); collectors with >2 descriptors or with duplicate descriptors inside one collector; collisions of the collector id (sum of descriptor ids) -- excluded by assumption as 64-bit hash collisions",
    assumptions=["E6: registry maps are crate::verif_map (abstract finite map)", "std::fmt::format stubbed (error text)", "RegistryCore driven directly (no RwLock); Registry::{register,unregister,gather} are one-line delegations under the lock",
                 "pre-state constructed directly through the maps' insert API (state representation = the three maps)"],
)

PROPS["C18"] = dict(
    hosts={"histogram": ["c18.rs"]},
    jobs=6,
    harnesses={
        "c18_shared_one_timer": dict(cap=2400),
        "c18_shared_two_timers": dict(cap=3600, tier="experimental"),
        "c18_local_timer_recorded": dict(cap=2400),
        "c18_local_timer_with_buffered_observation": dict(cap=2400),
        "c18_local_timer_discarded_with_buffered_observation": dict(cap=2400, tier="thorough"),
        "c18_local_timer_discarded_or_dropped": dict(cap=2400),
        "c18_observe_closure_duration": dict(cap=2400),
    },
    functions=["HistogramTimer::{new, observe_duration, stop_and_record, stop_and_discard, observe, drop}", "LocalHistogramTimer::{new, observe_duration, stop_and_record, stop_and_discard, observe, drop}",
               "histogram::Instant::{now, elapsed, elapsed_sec}", "Histogram::{start_timer, observe_closure_duration, observe, local}", "LocalHistogram::{start_timer, observe_closure_duration, clone, drop, flush}", "LocalHistogramCore::{observe, flush, clear}"],
    bounds="2 shared timers or 1 local timer, each ended in one of 4 ways chosen symbolically, symbolic end order; clock readings arbitrary (seconds < 1000, any nanoseconds, not necessarily monotone); 1 bucket; unwind 5",
    outside="more timers; moving a timer to another thread (the timer holds no thread-local state: stated, not checked); the coarse (nightly) clock",
    assumptions=["std::time::Instant::now stubbed by arbitrary instants (transmuted (secs, nanos); the harness asserts size_of::<Instant>() == 16)", "histogram core constructed directly (1 bucket)"],
)


PROPS["C12"] = dict(
    hosts={"histogram": ["c12.rs"]},
    jobs=6,
    harnesses={
        "c12_int_counter_two_locals_two_ops": dict(cap=1800),
        "c12_float_counter_flush_twice": dict(cap=1800),
        "c12_local_histogram_flush_twice_quick": dict(cap=2400),
        "c12_local_histogram_clone_quick": dict(cap=2400),
        "c12_local_histogram_drop_quick": dict(cap=2400),
        "c12_local_histogram_flush_and_clear": dict(cap=2400, tier="thorough"),
        "c12_local_histogram_clone_and_direct": dict(cap=2400, tier="thorough"),
        "c12_local_histogram_drop_flushes": dict(cap=2400, tier="thorough"),
    },
    functions=["GenericLocalCounter::{inc_by, inc, get, reset, flush, clone}", "GenericCounter::{inc_by, reset, get, local}", "LocalHistogramCore::{observe, clear, flush}",
               "LocalHistogram::{observe, flush, clear, clone, drop, get_sample_count, get_sample_sum}", "HistogramCore::{observe, proto, sample_sum, sample_count}"],
    bounds="counter: arbitrary state (shared < 2^60, two local handles with pending < 2^60) then 2 operations chosen symbolically out of 9; histogram: 0-2 pending observations (any f64) then 1 operation out of 5 (flush twice, clear, clone+drop, direct observe, drop); 1 bucket; unwind 4",
    outside="longer histories (the state reached by any history is covered by the arbitrary-state construction for counters); vector forms LocalCounterVec / LocalHistogramVec (their per-child caches are plain maps of the local handles checked here)",
    assumptions=["Desc::new stubbed", "histogram core constructed directly (1 bucket)"],
)


PROPS["C15"] = dict(
    hosts={"desc": ["c15.rs"]},
    cfgs=["prometheus_verif_map"],
    jobs=4,
    harnesses={
        "c15_id_boundary_shift_21_vs_12": dict(cap=2400),
        "c15_id_boundary_shift_20_vs_11": dict(cap=2400),
        "c15_id_same_shape_22": dict(cap=2400, tier="experimental"),
        "c15_id_empty_value_position": dict(cap=2400),
        "c15_id_two_const_labels_order_independent": dict(cap=3600, tier="thorough"),
        "c15_dim_hash_variable_label_sets": dict(cap=2400),
        "c15_dim_hash_const_vs_variable": dict(cap=2400),
        "c15_dim_hash_same_const_names_different_values": dict(cap=2400),
        "c15_dim_hash_const_present_vs_absent": dict(cap=2400),
    },
    functions=["Desc::new (id and dim_hash computation, const label pair sorting)", "desc::is_valid_metric_name", "desc::is_valid_label_name"],
    bounds="metric name 1..=2 bytes and one const-label value 0..=2 bytes (ASCII, symbolic); two const labels with 1-byte symbolic values in both insertion orders and every map iteration order; help 1 symbolic lowercase letter; variable-label lists from {[], [x], [y], [x,y], [y,x]}; hashed streams <= 8 bytes; unwind 6",
    outside="longer strings, more labels, non-ASCII values in this harness; collisions of the real 64-bit FNV-1a (the property is stated up to them)",
    assumptions=["E4: FnvHasher::write replaced by an injective packing of the byte stream", "E6: const-label map is crate::verif_map with symbolic iteration order", "std::fmt::format stubbed (error text)"],
)


PROPS["C02"] = dict(
    e5=True,
    hosts={"histogram": ["c02.rs"]},
    cfgs=["prometheus_verif_sync"],
    env={"PROMETHEUS_VERIF_K": "2"},
    jobs=3,
    mem_gb=50,
    harnesses={
        "c02_s1_observe_vs_collect": dict(cap=3600, tier="thorough"),
        "c02_s1_fixed_value_observe_vs_collect": dict(cap=3600, tier="experimental"),
        "c02_s2_two_observes_prefix_closed": dict(cap=7200, tier="experimental"),
        "c02_s3_two_observers_vs_collect": dict(cap=7200, tier="experimental"),
        "c02_s4_two_collectors": dict(cap=7200, tier="experimental"),
        "c02_s5_two_collectors_after_observation": dict(cap=5400, tier="experimental"),
        "c02_s5_diag": dict(cap=5400, tier="experimental"),
        "c02_diag_a": dict(cap=1500, tier="experimental"),
        "c02_diag_f": dict(cap=1500, tier="experimental"),
        "c02_diag_d": dict(cap=1500, tier="experimental"),
        "c02_diag_e": dict(cap=1500, tier="experimental"),
        "c02_diag_b": dict(cap=1500, tier="experimental"),
        "c02_diag_c": dict(cap=1500, tier="experimental"),
        "c03_batch_flush_three_collects": dict(cap=10800, tier="experimental"),
    },
    functions=["HistogramCore::observe", "HistogramCore::proto", "ShardAndCount::{inc, inc_by, flip, get}", "AtomicU64::{inc_by, inc_by_with_ordering, swap, compare_exchange_weak}", "AtomicF64::{inc_by, swap}"],
    bounds="K rounds (see env PROMETHEUS_VERIF_K), 2-3 threads, observations in {0,1,2,3}, 1-2 buckets, unwind 6",
    outside="more pre-emptions than K-1 per thread; more threads; weak-memory behaviours (see E5)",
    assumptions=["shared atomics and the collect mutex replaced by crate::verif_sync (Lal-Reps K-version cells)", "histogram core constructed directly"],
)



PROPS["C03"] = dict(
    hosts={"histogram": ["c03.rs"]},
    jobs=3,
    harnesses={
        "c03_sequence_direct_three_collects": dict(cap=3600),
        "c03_sequence_batch_visible_after_flush": dict(cap=3600),
        "c03_sequence_mixed_three_collects": dict(cap=3600),
        "c03_sequence_empty_flush_and_getters": dict(cap=3600),
        "c03_quiescent_collect_returns_immediately": dict(cap=1800),
    },
    functions=["HistogramCore::observe", "HistogramCore::proto", "HistogramCore::sample_sum", "HistogramCore::sample_count", "LocalHistogramCore::observe", "LocalHistogramCore::flush", "LocalHistogramCore::clear"],
    bounds="symbolic histories of 4 (quick) / 6 (thorough) operations + a final collect, each operation one of observe(v) / local observe(v) / local flush / collect / get_sample_count / get_sample_sum, v in {0,1,2,3}; 1 bucket; sequential (the concurrent scenarios are C02's S4 and c03_batch_flush_three_collects, thorough tier of C02)",
    outside="longer histories; interleavings (see C02)",
    assumptions=["histogram core constructed directly (1 bucket)", "real std atomics, treated sequentially by Kani"],
)


PROPS["C17"] = dict(
    hosts={"encoder_text": ["c17.rs"]},
    jobs=4,
    harnesses={
        "c17_text_encoder_untyped_family": dict(cap=1800),
        "c17_text_encoder_counter_gauge": dict(cap=2400),
        "c17_text_encoder_histogram_summary": dict(cap=3600, tier="experimental"),
        "c17_family_without_name_or_samples_is_err": dict(cap=1800),
    },
    functions=["TextEncoder::encode_utf8", "TextEncoder::encode_impl", "encoder::check_metric_family", "text::write_sample", "text::label_pairs_to_text"],
    bounds="one family of each MetricType with one sample (literal values), empty help; family without samples / without name for every type; unwind 18",
    outside="ProtobufEncoder (default-feature build; its encode is check_metric_family + the protobuf crate's writer); arguments of unbounded size; allocation failure. The other listed entry points are checked for panics inside the harnesses of C05, C06, C08 and C09",
    assumptions=["std::fmt::format stubbed (the lower-cased type name is not the subject)", "<f64 as Display>::fmt stubbed by a bit-pattern marker", "text::find_first_occurence stubbed by a naive byte search (memchr uses cpuid)"],
)



PROPS["C10"] = dict(
    hosts={"vec": ["c10.rs"]},
    cfgs=["prometheus_verif_map"],
    jobs=3,
    harnesses={
        "c10_racing_first_requests_share_the_child": dict(cap=2400),
        "c10_remove_then_recreate_starts_from_zero": dict(cap=2400),
        "c10_remove_missing_child_is_an_error": dict(cap=1200),
        "c10_reset_then_recreate_starts_from_zero": dict(cap=2400, tier="experimental"),
        "c10_lookup_vs_remove_and_recreate": dict(cap=2400),
    },
    functions=["MetricVecCore::get_metric_with_label_values", "MetricVecCore::get_or_create_metric", "MetricVecCore::delete_label_values", "MetricVecCore::reset", "MetricVecCore::hash_label_values", "GenericCounter::inc/inc_by/get"],
    bounds="one label with a 1-byte symbolic value per thread; the gap between the two critical sections of get-or-create filled with one complete operation (or a fixed short sequence) of another thread: create same/other child + update, remove, reset, remove + recreate; unwind 5",
    outside="interleavings inside a critical section (excluded by the borrow checker and the lock, which is trusted); more than one foreign operation sequence per gap beyond those listed; collect() racing (a single read-locked critical section); GaugeVec / HistogramVec (same generic MetricVecCore code)",
    assumptions=["lock-granularity argument: every access to the children map is inside one RwLock critical section, so an execution is a sequence of critical sections; get-or-create is the only operation with two", "E4 injective FNV stub, E6 children map, Opts::describe stubbed by a literal descriptor, slice::sort -> insertion sort, parking_lot slow paths assume(false)"],
)


PROPS["C07"] = dict(
    hosts={"registry": ["c07.rs"]},
    cfgs=["prometheus_verif_map"],
    jobs=3,
    harnesses={
        "c07_families_sorted_complete_any_order": dict(cap=2400),
        "c07_prefix_and_common_labels_deterministic": dict(cap=2400),
        "c07_same_name_samples_sorted_by_label_values": dict(cap=2400),
        "c07_two_label_samples_sorted_by_value_tuples": dict(cap=2400),
    },
    functions=["RegistryCore::gather", "RegistryCore::register"],
    bounds="2-3 collectors returning literal families (1-3 samples, 0-1 labels), sample values symbolic u8; every iteration order of the collector map and of the registry-label map (E6, all n! orders for n <= 3); unwind 6",
    outside="the collect() implementations of the library's own metric types (Value::collect / MetricVecCore::collect / HistogramCore::proto are one-sample constructions checked in C05/C08); more collectors or labels",
    assumptions=["E6: collector map / label map are crate::verif_map with symbolic iteration order; BTreeMap is the sorted-array shim", "collectors are harness-defined and return families built from literals"],
)
PROPS["C14"] = dict(
    hosts={"registry": ["c07.rs"]},
    cfgs=["prometheus_verif_map"],
    jobs=2,
    harnesses={
        "c14_counter_and_gauge_under_one_name": dict(cap=2400),
        "c07_same_name_samples_sorted_by_label_values": dict(cap=2400),
    },
    functions=["RegistryCore::gather", "RegistryCore::register"],
    bounds="two collectors of different kinds (counter, gauge) under one name with different const-label values, non-zero symbolic values, every iteration order of the collector map",
    outside="more than two collectors; histogram/summary kinds (same merge code)",
    assumptions=["E6 symbolic iteration order", "collectors are harness-defined and return families built from literals"],
)


PROPS["C04"] = dict(
    hosts={"encoder_text": ["c04.rs"]},
    jobs=5,
    harnesses={
        "c04_escape_string_1_byte": dict(cap=5400, tier="experimental"),
        "c04_escape_string_2_bytes": dict(cap=3600, tier="experimental"),
        "c04_escape_string_3_bytes": dict(cap=3600, tier="experimental"),
        "c04_escape_string_multibyte": dict(cap=3600, tier="experimental"),
        "c04_write_sample_layout": dict(cap=5400, tier="experimental"),
        "c04_write_sample_no_labels": dict(cap=1800),
        "c04_encode_histogram_family_layout": dict(cap=7200, tier="experimental"),
        "c04_encode_two_families_order_and_agreement": dict(cap=7200, tier="experimental"),
        "c04_encode_summary_family_layout": dict(cap=7200, tier="experimental"),
        "c04_entry_points_agree_and_append": dict(cap=7200, tier="experimental"),
    },
    functions=["text::escape_string", "text::label_pairs_to_text", "text::write_sample"],
    bounds="escape_string: every string of 2 (quick) / 3 (thorough) bytes over {backslash, quote, LF, CR, letter} and the 2-byte character e-acute next to each class, both modes; write_sample: 2 labels + additional label with 1-byte symbolic values, every f64 bit pattern as value (marker rendering), every i64 timestamp; unwind 10-20",
    outside="the HELP/TYPE prologue and per-type layout of encode_impl (histogram +Inf bucket, _sum/_count), family order, encode/encode_utf8/encode_to_string agreement; longer strings; std's f64/i64 Display itself (assumed to round-trip with FromStr)",
    assumptions=["text::find_first_occurence stubbed by a naive byte search (memchr uses cpuid)", "<f64 as Display>::fmt and <i64 as Display>::fmt stubbed by injective markers", "writer is a fixed 96-byte buffer implementing the crate's WriteUtf8"],
)

# ------------------------------------------------------------------------------------------------
MANIFEST_TEXT = {}
_KANI = "bounded model checking of the compiled crate (Kani -> CBMC -> CaDiCaL), harness compiled inside the crate; counterexamples replayed natively"
MANIFEST_TEXT["C01"] = dict(
    technique="Lal-Reps K-round sequentialisation of the real counter code on versioned atomics, decided by Kani/CBMC + CaDiCaL (schedule = solver variables)",
    level="Solver verdict over every round-robin schedule with K=3 rounds of 2-3 threads running the real inc/inc_by/get/reset/local-flush code, increments any u8: final sum, subset-sum reads with real-time bounds, monotone reads. Bounded (threads, operations, pre-emptions), sequentially consistent.",
    note="Trusted: crate::verif_sync (K-version atomics, ~250 lines) as the model of std atomics under SC; CAS modelled strong with stutter pruning; Desc::new stubbed; Kani/CBMC.",
)
MANIFEST_TEXT["C05"] = dict(
    technique="Kani/CBMC bounded model checking of hash_label_values / hash_labels / get_or_create_metric with FNV replaced by an injective stream packing (E4) and the children map by an abstract finite map (E6)",
    level="Solver verdict over all label values of 0..=2 bytes (child key: equal iff tuples equal position by position, slice and map form agree) and over all 1-byte values for the two-request get-or-create path (same child iff equal, exposed pairs, fresh child is 0, one child per tuple). Bounded string lengths; 'up to collisions of the 64-bit hash' made precise by E4.",
    note="Trusted: E4 injective hash stub (real FNV is run on the concrete counterexample during native replay), E6 verif_map, Opts::describe stubbed by a literal descriptor in the get-or-create harness, slice::sort replaced by insertion sort, parking_lot slow paths assume(false).",
)
MANIFEST_TEXT["C09"] = dict(
    technique="Kani/CBMC bounded model checking of is_valid_metric_name / is_valid_label_name over all strings of <= 3 Unicode scalars and of Desc::new / HistogramCore::new over symbolic names",
    level="Solver verdict: the two validators equal the two regexes for every string of <= 3 arbitrary Unicode scalar values; Desc::new accepts exactly valid 2-char names with non-empty help. Bounded lengths.",
    note="Trusted: std::fmt::format stubbed in Desc::new harnesses; E6 verif_map for const labels; Kani/CBMC.",
)
MANIFEST_TEXT["C11"] = dict(
    technique="Lal-Reps K-round sequentialisation of the real gauge code on versioned atomics with a linearizability oracle encoded as a finite disjunction, decided by Kani/CBMC + CaDiCaL",
    level="Solver verdict over every K=3 round-robin schedule of 2 threads x 2 operations (IntGauge: operations chosen symbolically out of set/inc/dec/add/sub/get; Gauge: fixed operation kinds, symbolic operands): every history is linearizable w.r.t. real time; sub(x) == add(-x) bit-exactly for every f64. Bounded, SC.",
    note="Trusted: crate::verif_sync as SC model of std atomics; Desc::new stubbed; Kani/CBMC float model.",
)
MANIFEST_TEXT["C12"] = dict(
    technique="Kani/CBMC bounded model checking of the local-counter / local-histogram code, one or two symbolically chosen operations from an arbitrary state",
    level="Solver verdict: from an arbitrary (shared, pending, pending) counter state any two operations out of nine keep shared = direct + flushed and local = unflushed; float flush twice / reset; local histogram with 0-2 pending f64 observations and one of five operations (flush twice, clear, clone+drop, direct observe, drop) leaves exactly the expected shared count / bit-exact sum / bucket. Bounded history length, inductive state for counters.",
    note="Trusted: Desc::new stubbed; histogram core constructed directly with 1 bucket; Kani/CBMC.",
)
MANIFEST_TEXT["C18"] = dict(
    technique="Kani/CBMC bounded model checking of the timer code with std::time::Instant::now stubbed by arbitrary (not even monotone) instants",
    level="Solver verdict over every clock reading (arbitrary, not even monotone) and every way a timer can end (observe_duration, stop_and_record, stop_and_discard, drop), for a shared timer, local timers (also with a buffered observation) and observe_closure_duration: exactly one non-negative observation or none. One timer per scenario.",
    note="Trusted: Instant::now stub (transmuted (secs, nanos), size asserted); histogram core constructed directly; Kani/CBMC.",
)
MANIFEST_TEXT["C15"] = dict(
    technique="Kani/CBMC bounded model checking of Desc::new with FNV replaced by an injective stream packing (E4) and the const-label map by an abstract map with symbolic iteration order (E6)",
    level="Solver verdict over all byte contents of short names / values (boundary-shifted splits enumerated by length, contents symbolic), all insertion and iteration orders of two const labels, variable-label lists as sets: id and dim_hash equal exactly when the statement says. Bounded string lengths.",
    note="Trusted: E4, E6, std::fmt::format and slice::sort stubs; Kani/CBMC.",
)
MANIFEST_TEXT["C06"] = dict(
    technique="Kani/CBMC bounded model checking of RegistryCore::register / unregister as one step from an arbitrary registry state (inductive), ids and dimension hashes symbolic 64-bit values",
    level="Solver verdict: from an arbitrary registry state of fixed shape (ids and dimension hashes arbitrary 64-bit values) one register call with 1 or 2 symbolic descriptors succeeds exactly when the statement says, reports AlreadyReg for an equal descriptor, and leaves the complete state unchanged when refused. Histories of any length pass only through such states; shape and collector sizes bounded. The unregister step harnesses exist but are experimental (24 GB watchdog): unregister is NOT decided.",
    note="Trusted: E6 verif_map, pre-state built through the maps' API, collector-id collisions assumed away (64-bit hash collisions), std::fmt::format stubbed.",
)
MANIFEST_TEXT["C02"] = dict(
    technique="Lal-Reps K-round sequentialisation of the real observe/proto code (Kani/CBMC) plus a z3 RC11 release/acquire litmus built from the atomic events extracted from the crate's MIR (E5)",
    level="Quick tier: the z3 litmus only (about 30 s). Thorough tier adds the Kani scenario S1 (12-14 min, more than the 15-minute budget of a per-change check once compilation is added): every K=2 round-robin schedule of one observer and one collector yields a snapshot that is one consistent cut respecting real time. z3: no RC11-consistent execution lets the collector count an observation/flush whose bucket or sum update it then misses; twins with either side weakened to Relaxed are sat. Scenarios with two collectors / two observers are experimental (no usable solver verdict, DESIGN A.9): the collector/collector clause is NOT decided. Litmus bounded to 1 observer/flush x 1 collector.",
    note="Trusted: crate::verif_sync (SC), the MIR reader's classification of atomic locations (fails closed), the RC11 fragment encoded (po, rf, mo, release sequences, sw, hb, coherence, RMW atomicity; no fences, no SC axioms).",
)

MANIFEST_TEXT["C03"] = dict(
    technique="Kani/CBMC bounded model checking of the real observe / local flush / proto / sample_count / sample_sum code over concrete operation sequences with symbolic values (sequential part); Lal-Reps scenarios with two collectors / batch flush in C02's thorough tier",
    level="Solver verdict over all observation values in {0..3} for three operation sequences with three or more collections (direct observations, local batches, empty flushes, getters) against a reference multiset, plus: a quiescent collect returns at its first compare-exchange (unwinding assertion of the wait loop) from any state reached by <= 2 observations and <= 2 collections. Bounded sequences; interleavings are C02's.",
    note="Trusted: histogram core constructed directly (1 bucket); Kani treats std atomics sequentially in these harnesses.",
)
MANIFEST_TEXT["C04"] = dict(
    technique="Kani/CBMC bounded model checking of escape_string and write_sample against a reference renderer written in the harness, number rendering abstracted by injective markers",
    level="Solver verdict for write_sample over every f64 bit pattern: the sample line is the name followed by the value's exact rendering (marker = bit pattern under Kani, std's Display natively) and a newline. The per-type layout / escaping harnesses exist in the thorough tier but did not produce a verdict within their caps (DESIGN A.5/A.8): the escaping clause and the family layout are NOT decided.",
    note="Trusted: find_first_occurence stub (naive search), f64/i64 Display markers (std's number formatting and its round trip with FromStr are assumed), fixed-buffer WriteUtf8 writer.",
)
MANIFEST_TEXT["C07"] = dict(
    technique="Kani/CBMC bounded model checking of RegistryCore::gather with the collector map and registry-label map as abstract maps with symbolic iteration order (E6)",
    level="Solver verdict over every iteration order (= hash seed / registration order) of 2-3 collectors and 2 registry labels and all sample values: one family per name with samples, increasing names, samples sorted by label values, prefix and common labels applied, result independent of the order. Collectors are harness-defined literals (the merge / sort / decorate logic of gather is the subject).",
    note="Trusted: E6 verif_map (HashMap with symbolic order, BTreeMap as sorted array); collectors return literal families.",
)
MANIFEST_TEXT["C10"] = dict(
    technique="Kani/CBMC bounded model checking of get-or-create's two critical sections with a complete foreign operation placed in the gap (interleavings at lock granularity), label values symbolic, E4 + E6",
    level="Solver verdict over all 1-byte label values: whatever a second thread completes between the read-locked lookup and the write-locked get_or_create_metric (create same/other child and update, remove, remove and recreate), the outcome is that of a sequential order: same child for equal values (no lost update), one entry per label values, removed children stay usable and restart from zero. Bounded to the listed foreign operations.",
    note="Trusted: the RwLock (every map access is inside one critical section, enforced by the borrow checker), E4, E6, Opts::describe literal stub, insertion-sort stub.",
)
MANIFEST_TEXT["C14"] = dict(
    technique="Kani/CBMC bounded model checking of RegistryCore::register + gather for two collectors of different kinds under one name, iteration order symbolic (E6)",
    level="Solver verdict over both iteration orders and all non-zero values. On the current tree the property is violated (known finding D7, listed in known_findings.json): the check prints KNOWN-FINDING for exactly that scenario and reports any other violation.",
    note="Trusted: E6; collectors return literal families.",
)
MANIFEST_TEXT["C17"] = dict(
    technique="Kani/CBMC panic-reachability checks (panic!, unimplemented!, unwrap, index, overflow) on TextEncoder for every MetricType and on check_metric_family; the other listed entry points are covered by the same checks inside C05/C06/C08/C09 harnesses",
    level="Solver verdict: TextEncoder::encode_utf8 returns (Err for an UNTYPED family, Ok for counter/gauge) for literal one-sample families; families without name or samples are refused for every type. Bounded to one-sample families.",
    note="Trusted: std::fmt::format stubbed, f64 Display marker, find_first_occurence stub.",
)

CLAIMED = ["C01", "C02", "C03", "C04", "C05", "C06", "C08", "C09", "C10", "C11", "C12", "C15", "C17", "C18"]
MANIFEST_TEXT["C08"] = dict(
    technique="bounded model checking (Kani/CBMC + CaDiCaL) of check_and_adjust_buckets, HistogramCore::observe/proto and LocalHistogramCore over all f64 bit patterns",
    level="Solver verdict over every f64 bit pattern for bucket lists of length 0-3 and 1-2 observations: acceptance rule, cumulative counts, count and bit-exact sum; unwinding assertions on. Bounded, not a proof.",
    note="Trusted: Kani's translation and CBMC's float model; std::fmt::format stubbed to empty; Desc::new stubbed in public-constructor harnesses; histogram core constructed directly from adjusted bounds in the counting harnesses (constructor wiring covered by separate harnesses).",
)

NOT_APPLICABLE = {
    "C07": "RegistryCore::gather does not produce a verdict under Kani/CBMC in any of three formulations (40 min cap / 24 GB): Vec<Metric> growth, std sort_by on 200-byte elements (stub rejected by Kani), format!; see DESIGN A.8",
    "C13": "the encoding is the protobuf crate's pointer-rich stream writer; symbolic execution did not finish in the design-round probe (20 min) and even format! on concrete strings is out of reach; the crate's own check_metric_family is covered by C17",
    "C14": "needs RegistryCore::gather, which does not produce a verdict under Kani/CBMC (see C07, DESIGN A.8)",
    "C16": "needs both data models in one formula; harnesses are compiled inside one build (one feature set) and the generated protobuf structs were not attempted under Kani (see C13)",
    "C19": "subject is a procedural macro (static-metric on syn/quote) and the quantifier is over programs; Kani cannot compile or symbolically execute a proc-macro crate and a hand translation of syn/quote to SMT is out of reach",
    "C20": "the macros name std::collections::HashMap explicitly and register in the global lazy_static registry; hashbrown under Kani does not terminate in useful time and the E6 map shim cannot be substituted inside the macro expansions",
}
for _p in ["C01", "C02", "C03", "C04", "C05", "C06", "C08", "C09", "C10", "C11", "C12", "C15", "C17", "C18"]:
    if _p not in CLAIMED:
        NOT_APPLICABLE[_p] = "harnesses exist (harness/incrate) but the quick tier is not yet stable within the caps on this machine; not claimed in this state"
