"""Per-property configuration: which harness files are compiled into which module of the crate,
which harnesses belong to which tier, caps, and the text that goes into the evidence."""

PROPS = {}

PROPS["C08"] = dict(
    hosts={"histogram": ["c08.rs"]},
    jobs=6,
    harnesses={
        "c08_accept_len1": dict(cap=120),
        "c08_accept_len2": dict(cap=120),
        "c08_accept_len3": dict(cap=180),
        "c08_accept_empty_selects_default": dict(cap=120),
        "c08_accept_public_len2": dict(cap=300),
        "c08_core_2bounds_1obs": dict(cap=600),
        "c08_core_2bounds_2obs": dict(cap=1500, tier="thorough"),
        "c08_count_1bound_2obs": dict(cap=1500, tier="thorough"),
        "c08_count_concrete_2obs": dict(cap=1500, tier="thorough"),
        "c08_count_local_2bounds_2obs": dict(cap=1500, tier="thorough"),
        "c08_linear_buckets": dict(cap=1200, tier="thorough"),
        "c08_exponential_buckets_errors": dict(cap=300),
        "c08_exponential_buckets_values": dict(cap=1200, tier="thorough"),
    },
    functions=["histogram::check_and_adjust_buckets", "HistogramCore::new", "HistogramCore::observe", "HistogramCore::proto",
               "HistogramCore::sample_sum", "HistogramCore::sample_count", "LocalHistogramCore::observe", "LocalHistogramCore::flush",
               "AtomicF64::inc_by", "AtomicF64::swap", "AtomicU64::inc_by", "ShardAndCount::*", "linear_buckets", "exponential_buckets",
               "Histogram::with_opts", "Histogram::metric"],
    bounds="bucket lists of concrete length 0..3 with every bound an unrestricted f64 bit pattern; 1-2 observations, each an unrestricted f64 bit pattern; unwind 4-14",
    outside="more than 3 bounds / 2 observations; HistogramVec children (same HistogramCore, built by the same constructor); exponential_buckets with a fully symbolic factor and count > 1 (symbolic x symbolic f64 multiplication does not finish)",
    assumptions=["error-message formatting (std::fmt::format) is stubbed to an empty string",
                 "Desc::new is stubbed in the public-constructor harnesses (the descriptor is not the subject of C08)",
                 "Kani's 'NaN on addition/multiplication' check class is ignored: producing NaN is defined f64 behaviour the property requires"],
)


PROPS["C01"] = dict(
    hosts={"root": ["c01.rs"]},
    cfgs=["prometheus_verif_sync"],
    env={"PROMETHEUS_VERIF_K": "3"},
    jobs=6,
    harnesses={
        "c01_float_inc_flush_read": dict(cap=900),
        "c01_int_inc_flush_read": dict(cap=900),
        "c01_float_two_writers": dict(cap=600),
        "c01_int_reset": dict(cap=600),
    },
    functions=["AtomicF64::inc_by (load / compare_exchange_weak loop)", "AtomicF64::get", "AtomicU64::inc_by (fetch_add)", "AtomicU64::get/set",
               "Value::inc_by/inc/get/set", "GenericCounter::inc_by/inc/get/reset/local", "GenericLocalCounter::inc_by/flush"],
    bounds="3 threads, <= 3 operations each, K = 3 rounds (<= 2 pre-emptions per thread, round-robin), increments any u8 (exact in f64), unwind 6",
    outside="more than K-1 pre-emptions per thread, more threads/operations; weak-memory effects (SC per location and RMW atomicity are all the property needs and hold for every ordering)",
    assumptions=["shared atomics replaced by crate::verif_sync (K-version cells; Lal-Reps sequentialisation) through the cfg(prometheus_verif_sync) hook",
                 "compare_exchange_weak modelled as strong; a failed CAS repeated in the same round by the same thread is pruned as a stutter step",
                 "Desc::new stubbed (descriptor not the subject)"],
)

# ------------------------------------------------------------------------------------------------
MANIFEST_TEXT = {}
MANIFEST_TEXT["C08"] = dict(
    technique="bounded model checking (Kani/CBMC + CaDiCaL) of check_and_adjust_buckets, HistogramCore::observe/proto and LocalHistogramCore over all f64 bit patterns",
    level="Solver verdict over every f64 bit pattern for bucket lists of length 0-3 and 1-2 observations: acceptance rule, cumulative counts, count and bit-exact sum; unwinding assertions on. Bounded, not a proof.",
    note="Trusted: Kani's translation and CBMC's float model; std::fmt::format stubbed to empty; Desc::new stubbed in public-constructor harnesses; histogram core constructed directly from adjusted bounds in the counting harnesses (constructor wiring covered by separate harnesses).",
)

NOT_APPLICABLE = {
    "C19": "subject is a procedural macro (static-metric on syn/quote) and the quantifier is over programs; Kani cannot compile or symbolically execute a proc-macro crate and a hand translation of syn/quote to SMT is out of reach",
}
for _p in ["C01", "C02", "C03", "C04", "C05", "C06", "C07", "C09", "C10", "C11", "C12", "C13", "C14", "C15", "C16", "C17", "C18", "C20"]:
    if _p not in PROPS:
        NOT_APPLICABLE[_p] = "check not built yet (work in progress, see DESIGN.md); not claimed until its harnesses are committed"
