"""Verification driver for tikv/rust-prometheus (solver-based checking of the real code).

Everything is regenerated from /repo's current working tree on every run: the harness modules in
/verif/harness/incrate are compiled *inside* the crate by Kani (rustc MIR -> CBMC goto program),
CBMC unrolls to the stated bounds and CaDiCaL decides.  See DESIGN.md.
"""
import json, os, re, subprocess, sys, time, shutil, hashlib

VERIF = os.path.dirname(os.path.dirname(os.path.abspath(__file__)))
REPO = os.environ.get("VERIF_REPO", "/repo")
BUILD = os.path.join(VERIF, ".build")
HARNESS_DIR = os.path.join(VERIF, "harness", "incrate")
HOSTS = ["atomic64", "counter", "desc", "gauge", "histogram", "metrics", "registry", "value",
         "vec", "pulling_gauge", "encoder_text", "encoder_pb", "encoder_mod"]
ALLOW = "#[allow(missing_docs, dead_code, unused_imports, unused_variables, unused_mut, unused_macros, missing_debug_implementations, clippy::all)]"

sys.path.insert(0, os.path.dirname(os.path.abspath(__file__)))
from props import PROPS  # noqa: E402

# Ignored check classes (neither is part of any property here):
#  * "NaN on addition/..." (CBMC --nan-check): producing NaN is defined f64 behaviour several properties require;
#  * the preconditions of Kani's __rust_dealloc model (kani_lib.c): on harnesses that move heap values between
#    slots under symbolic branches CBMC reports "size matches layout / free argument / double free" spuriously;
#    the same harness bodies run clean under valgrind natively (DESIGN A.3).
IGNORED_CHECKS = [re.compile(r"^NaN on ")]
UNWIND_RE = re.compile(r"unwinding assertion")
UNSUPPORTED_RE = re.compile(r"is not currently supported by Kani|unsupported construct|not supported")


def log(*a):
    print(*a, flush=True)


def _rss_of_group(pgid):
    """max RSS (GB) of any single process in the process group, and its pid"""
    try:
        out = subprocess.run(["ps", "-eo", "pid,pgid,rss,comm"], capture_output=True, text=True).stdout
    except Exception:
        return 0.0, None
    worst, wpid = 0.0, None
    for line in out.splitlines()[1:]:
        f = line.split()
        if len(f) >= 4 and f[1] == str(pgid):
            g = int(f[2]) / (1 << 20)
            if g > worst:
                worst, wpid = g, int(f[0])
    return worst, wpid


def sh(cmd, env=None, timeout=None, cwd=None, mem_gb=None):
    """Run a command in its own process group with a wall-clock cap and a per-process RSS cap
    (a process above the cap is killed; Kani then reports that harness as 'CBMC failed')."""
    t0 = time.time()
    logf = os.path.join(BUILD, f"sh_{os.getpid()}_{int(t0 * 1000) % 100000000}.out")
    os.makedirs(BUILD, exist_ok=True)
    with open(logf, "w") as fh:
        p = subprocess.Popen(cmd, env=env, cwd=cwd, stdout=fh, stderr=subprocess.STDOUT, preexec_fn=os.setsid)
        rc = None
        while True:
            try:
                rc = p.wait(timeout=5)
                break
            except subprocess.TimeoutExpired:
                pass
            if timeout and time.time() - t0 > timeout:
                try:
                    os.killpg(p.pid, 9)
                except Exception:
                    pass
                p.wait()
                rc = -9
                break
            if mem_gb:
                g, pid = _rss_of_group(p.pid)
                if g > mem_gb and pid:
                    try:
                        os.kill(pid, 9)
                    except Exception:
                        pass
    out = open(logf, errors="replace").read()
    os.unlink(logf)
    return rc, out, time.time() - t0


# ------------------------------------------------------------------------------------------------
# harness source parsing (names, doc comments, unwind bounds, stubs) -> evidence + build lists
# ------------------------------------------------------------------------------------------------
HARNESS_RE = re.compile(
    r"((?:[ \t]*///[^\n]*\n)*)[ \t]*#\[cfg_attr\(kani,\s*kani::proof(.*?)\)\]\s*pub fn (\w+)\s*\(\)", re.S)


def parse_harness_file(path):
    src = open(path).read()
    res = {}
    for m in HARNESS_RE.finditer(src):
        doc = " ".join(l.strip()[3:].strip() for l in m.group(1).strip().splitlines())
        attrs = m.group(2)
        unwind = re.search(r"kani::unwind\((\d+)\)", attrs)
        stubs = re.findall(r"kani::stub\(\s*([^,]+?)\s*,\s*([^)]+?)\s*\)", attrs)
        res[m.group(3)] = dict(doc=doc, unwind=int(unwind.group(1)) if unwind else None,
                               stubs=[f"{a.strip()} -> {b.strip()}" for a, b in stubs], file=path)
    return res


def prop_harness_meta(pid):
    p = PROPS[pid]
    meta = {}
    for host, files in p["hosts"].items():
        for f in files:
            for name, info in parse_harness_file(os.path.join(HARNESS_DIR, f)).items():
                info = dict(info)
                info["module"] = ("" if host == "root" else host.replace("encoder_", "encoder::") + "::") + "verif_" + f[:-3]
                if host == "root":
                    info["module"] = "verif_incrate::" + f[:-3]
                meta[name] = info
    return meta


def gen_incrate(pid):
    """Generate the per-property include directory that the cfg-guarded hooks in /repo pull in."""
    p = PROPS[pid]
    d = os.path.join(BUILD, "incrate", pid)
    os.makedirs(d, exist_ok=True)
    disp = []
    root_mods = [f'    #[path = "{HARNESS_DIR}/common.rs"] pub mod common;']
    files = {h: "" for h in HOSTS}
    for host, hfiles in p["hosts"].items():
        for f in hfiles:
            mod = f[:-3]
            if host == "root":
                root_mods.append(f'    #[path = "{HARNESS_DIR}/{f}"] pub mod {mod};')
                disp.append(f"crate::verif_incrate::{mod}::dispatch")
            else:
                files[host] += f'{ALLOW}\n#[path = "{HARNESS_DIR}/{f}"] pub(crate) mod verif_{mod};\n'
                hostpath = host.replace("encoder_", "encoder::")
                if host in ("encoder_text", "encoder_pb"):
                    # `text` / `pb` are private to `encoder`: reach the dispatcher through `encoder` itself
                    sub = host.split("_")[1]
                    files["encoder_mod"] += f"pub(crate) fn verif_dispatch_{sub}_{mod}(name: &str) -> Option<fn()> {{ {sub}::verif_{mod}::dispatch(name) }}\n"
                    disp.append(f"crate::encoder::verif_dispatch_{sub}_{mod}")
                else:
                    disp.append(f"crate::{hostpath}::verif_{mod}::dispatch")
    body = "\n".join(f"        if let Some(f) = {d_}(name) {{ return Some(f); }}" for d_ in disp)
    modrs = (f"#[doc(hidden)]\n{ALLOW}\npub mod verif_incrate {{\n" + "\n".join(root_mods) +
             f"\n    pub fn dispatch(name: &str) -> Option<fn()> {{\n{body}\n        None\n    }}\n}}\n")
    files["mod"] = modrs

    for k, v in files.items():
        path = os.path.join(d, k + ".rs")
        old = open(path).read() if os.path.exists(path) else None
        if old != v:
            open(path, "w").write(v)
    return d


def base_env(pid, incrate):
    env = dict(os.environ)
    env["PROMETHEUS_VERIF_INCRATE"] = incrate
    cfgs = "--cfg prometheus_verif"
    for c in PROPS[pid].get("cfgs", []):
        cfgs += f" --cfg {c}"
    env["RUSTFLAGS"] = cfgs
    env["CARGO_NET_OFFLINE"] = "true"
    env.pop("RUSTUP_TOOLCHAIN", None)
    for k, v in PROPS[pid].get("env", {}).items():
        env[k] = os.environ.get("VERIF_OVERRIDE_" + k, v)
    return env


def kani_cmd(pid, extra):
    p = PROPS[pid]
    cmd = ["cargo", "kani", "-p", "prometheus", "--target-dir", os.path.join(BUILD, "kani", pid + p.get("target_suffix", "") + os.environ.get("VERIF_TARGET_SUFFIX", "")),
           "-Z", "stubbing", "-Z", "unstable-options"]
    if p.get("features", "plain") == "plain":
        cmd.append("--no-default-features")
    cmd += p.get("kani_flags", [])
    cmd += os.environ.get("VERIF_EXTRA_FLAGS", "").split()
    return cmd + extra


# ------------------------------------------------------------------------------------------------
# Kani output parsing
# ------------------------------------------------------------------------------------------------
def parse_parallel_output(out):
    """terse -j output -> {harness_fullname: block_text}"""
    thread_h = {}
    blocks = {}
    cur = None
    for line in out.splitlines():
        m = re.match(r"^Thread (\d+): Checking harness (\S+?)\.\.\.", line)
        if m:
            thread_h[m.group(1)] = m.group(2)
            cur = None
            continue
        m = re.match(r"^Thread (\d+):\s*$", line)
        if m:
            cur = thread_h.get(m.group(1))
            blocks.setdefault(cur, [])
            continue
        if re.match(r"^Thread (\d+): ", line):
            continue
        if line.startswith("Manual Harness Summary") or line.startswith("Complete - "):
            cur = None
            continue
        if cur is not None:
            blocks[cur].append(line)
    return {k: "\n".join(v) for k, v in blocks.items() if k}


def parse_single_output(out):
    m = re.search(r"Checking harness (\S+?)\.\.\.", out)
    if not m:
        return {}
    name = m.group(1)
    i = out.find("VERIFICATION RESULT:")
    if i < 0:
        i = m.end()
    return {name: out[i:]}


def classify(block):
    """-> dict(verdict, failed=[(desc, loc)], checks=(failed,total), covers=(sat,total), time)"""
    r = dict(verdict=None, failed=[], ignored=[], checks=None, covers=None, time=None, note="")
    m = re.search(r"\*\* (\d+) of (\d+) failed", block)
    if m:
        r["checks"] = (int(m.group(1)), int(m.group(2)))
    m = re.search(r"\*\* (\d+) of (\d+) cover properties satisfied", block)
    if m:
        r["covers"] = (int(m.group(1)), int(m.group(2)))
    m = re.search(r"Verification Time: ([0-9.]+)s", block)
    if m:
        r["time"] = float(m.group(1))
    for fm in re.finditer(r"Failed Checks: (.*)\n(?:\s*File: (.*))?", block):
        desc = fm.group(1).strip().strip('"')
        loc = (fm.group(2) or "").strip()
        if any(p.search(desc) for p in IGNORED_CHECKS) or ("kani_lib.c" in loc and "__rust_dealloc" in loc):
            r["ignored"].append((desc, loc))
        else:
            r["failed"].append((desc, loc))
    if "timed out" in block:
        r["verdict"], r["note"] = "inconclusive", "harness cap hit (CBMC timed out)"
    elif "out of memory" in block or "CBMC failed" in block:
        r["verdict"], r["note"] = "inconclusive", "CBMC killed (memory cap or crash)"
    elif r["checks"] is None:
        r["verdict"], r["note"] = "inconclusive", "no result block"
    elif any(UNWIND_RE.search(d) for d, _ in r["failed"]):
        r["verdict"], r["note"] = "inconclusive", "unwinding assertion failed: bound too small"
    elif any(UNSUPPORTED_RE.search(d) for d, _ in r["failed"]):
        r["verdict"], r["note"] = "inconclusive", "unsupported construct reachable"
    elif r["failed"]:
        r["verdict"] = "violated"
    elif "VERIFICATION:- SUCCESSFUL" in block or (r["checks"] and r["checks"][0] == len(r["ignored"])):
        if r["covers"] and r["covers"][0] != r["covers"][1]:
            r["verdict"], r["note"] = "vacuous", "cover witness unsatisfied/unreachable"
        else:
            r["verdict"] = "holds"
    else:
        r["verdict"], r["note"] = "inconclusive", "unclassified output"
    return r


PLAYBACK_RE = re.compile(
    r"/// Check for `(\w+)`: \"\"?(.*?)\"?\"\s*\n(?:.*?\n)*?\s*let concrete_vals: Vec<Vec<u8>> = vec!\[(.*?)\n\s*\];", re.S)


def parse_playback(out):
    res = []
    for m in PLAYBACK_RE.finditer(out):
        tape = []
        for vm in re.finditer(r"vec!\[([0-9, ]*)\]", m.group(3)):
            s = vm.group(1).strip()
            tape.append([int(x) for x in s.split(",") if x.strip()] if s else [])
        comments = re.findall(r"//\s*(.*)", m.group(3))
        res.append(dict(kind=m.group(1), desc=m.group(2).strip('"'), tape=tape, values=comments))
    return res


# ------------------------------------------------------------------------------------------------
# native replay
# ------------------------------------------------------------------------------------------------
def replay_crate():
    """The replay crate's manifest names the repository by path; generate it for the tree being checked."""
    if REPO == "/repo":
        d = os.path.join(VERIF, "replay")
    else:
        d = os.path.join(BUILD, "replay_" + hashlib.sha1(REPO.encode()).hexdigest()[:8])
        os.makedirs(os.path.join(d, "src"), exist_ok=True)
        man = open(os.path.join(VERIF, "replay", "Cargo.toml")).read().replace('path = "/repo"', f'path = "{REPO}"')
        open(os.path.join(d, "Cargo.toml"), "w").write(man)
        shutil.copy(os.path.join(VERIF, "replay", "src", "main.rs"), os.path.join(d, "src", "main.rs"))
    lock = os.path.join(d, "Cargo.lock")
    if not os.path.exists(lock):
        src = os.path.join(REPO, "Cargo.lock")
        shutil.copy(src if os.path.exists(src) else "/repo/Cargo.lock", lock)
    return d


def build_replay(pid, incrate, profile):
    env = base_env(pid, incrate)
    env["RUSTFLAGS"] += " --cfg prometheus_verif_replay"
    d = replay_crate()
    tdir = os.path.join(BUILD, "replay_target" + os.environ.get("VERIF_TARGET_SUFFIX", ""))
    cmd = ["cargo", "build", "--offline", "--manifest-path", os.path.join(d, "Cargo.toml"), "--target-dir", tdir]
    p = PROPS[pid]
    if p.get("features", "plain") != "plain":
        cmd += ["--features", "protobuf"]
    if profile == "release":
        cmd.append("--release")
    rc, out, _ = sh(cmd, env=env, timeout=900)
    if rc != 0:
        return None, out
    return os.path.join(tdir, profile if profile == "release" else "debug", "vreplay"), out


def native_replay(pid, incrate, harness, tape, rdir):
    """Run the harness body natively (real FNV, real formatting, real maps unless the property's
    cfg replaces them) on the recorded values.  -> (reproduced: bool|None, details)"""
    os.makedirs(rdir, exist_ok=True)
    tpath = os.path.join(rdir, harness + ".tape.json")
    json.dump(tape, open(tpath, "w"))
    details = {}
    verdicts = []
    for profile in ("debug", "release"):
        exe, out = build_replay(pid, incrate, profile)
        if exe is None:
            details[profile] = "replay build failed:\n" + out[-2000:]
            verdicts.append(None)
            continue
        rc, out, _ = sh([exe, harness, tpath], timeout=120)
        details[profile] = out[-1500:]
        verdicts.append(True if rc == 1 else (False if rc == 0 else None))
    if any(v is True for v in verdicts):
        return True, details
    if all(v is False for v in verdicts):
        return False, details
    return None, details


# ------------------------------------------------------------------------------------------------
# known findings
# ------------------------------------------------------------------------------------------------
def load_known():
    path = os.path.join(VERIF, "known_findings.json")
    if not os.path.exists(path):
        return []
    return json.load(open(path)).get("findings", [])


def known_match(pid, harness, desc):
    for f in load_known():
        if f.get("status") != "known" or f.get("property") != pid:
            continue
        if harness in f.get("harnesses", []) and f.get("check") == desc:
            return f
    return None


def native_search(pid, incrate, n, r, rdir, seed):
    """The solver's verdict stands; look for a concrete witness of the same failed check by running the
    harness natively on biased random tapes (see replay/src/main.rs --search). -> (test, details) or None"""
    p = PROPS[pid]
    exe, bout = build_replay(pid, incrate, "debug")
    if not exe:
        log(f"[{pid}]    replay build failed: {bout[-800:]}")
        return None
    os.makedirs(rdir, exist_ok=True)
    tpath = os.path.join(rdir, n + ".search.tape.json")
    for d, _ in r["failed"][:3]:
        rc2, sout, _ = sh([exe, "--search", n, str(p["harnesses"][n].get("search_trials", 400000)), str(seed + 1), tpath, d], timeout=900)
        log(f"[{pid}]    {sout.strip()[-300:]}")
        if rc2 == 1:
            tape = json.load(open(tpath))
            ok, details = native_replay(pid, incrate, n, tape, rdir)
            r["replay"].append(dict(check=d, values="found by native search", reproduced=ok))
            if ok:
                return (dict(desc=d, values=["(native search) " + sout.strip()[-200:]], tape=tape), details)
    return None


# ------------------------------------------------------------------------------------------------
def run_property(pid, tier, only=None, seed=0, jobs=None):
    t_start = time.time()
    p = PROPS[pid]
    meta = prop_harness_meta(pid)
    plan = []
    for name, cfg in p["harnesses"].items():
        if name not in meta:
            log(f"[{pid}] harness {name} listed in props.py but not found in source")
            return 2, None
        if only and name not in only:
            continue
        t = cfg.get("tier", "quick")
        # tiers: quick < thorough; "experimental" harnesses (no verdict within the caps on this machine, kept so
        # that the measurement can be repeated) run only when named with --only
        if not only and (t == "experimental" or (t == "thorough" and tier != "thorough")):
            continue
        plan.append(name)
    unlisted = [n for n in meta if n not in p["harnesses"]]
    incrate = gen_incrate(pid)
    env = base_env(pid, incrate)
    results = {}
    raw = {}
    # group by cap so that --harness-timeout is meaningful
    groups = {}
    for n in plan:
        c = p["harnesses"][n]
        cap = c.get("cap_thorough" if tier == "thorough" else "cap", c.get("cap", 600))
        groups.setdefault(tuple(c.get("flags", [])), []).append((n, cap))
    mem = p.get("mem_gb", 24)
    build_failed = None
    for flags, ncs in sorted(groups.items()):
        names = [n for n, _ in ncs]
        cap = max(c for _, c in ncs)
        j = min(len(names), jobs or p.get("jobs", 6))
        extra = list(flags)
        for n in names:
            extra += ["--harness", meta[n]["module"] + "::" + n]
        extra += ["--exact", "--harness-timeout", f"{cap}s", "-j", str(j), "--output-format", "terse"]
        log(f"[{pid}] kani: {len(names)} harness(es), cap {cap}s each, {j} parallel: {' '.join(names)}")
        rc, out, dt = sh(kani_cmd(pid, extra), env=env, cwd=REPO, timeout=cap * ((len(names) + j - 1) // j) + 900, mem_gb=mem)
        os.makedirs(os.path.join(BUILD, "logs"), exist_ok=True)
        open(os.path.join(BUILD, "logs", f"{pid}_{tier}_{abs(hash(flags)) % 1000}.log"), "w").write(out)
        if "error: could not compile" in out or "error[E" in out or (rc != 0 and "Checking harness" not in out):
            build_failed = out
            break
        blocks = parse_parallel_output(out) if j > 1 else parse_single_output(out)
        for n in names:
            full = meta[n]["module"] + "::" + n
            b = blocks.get(full)
            if b is None:
                results[n] = dict(verdict="inconclusive", note="no output block (killed?)", failed=[], ignored=[], checks=None, covers=None, time=None)
            else:
                results[n] = classify(b)
                raw[n] = b
    if build_failed is not None:
        errs = "\n".join(l for l in build_failed.splitlines() if l.startswith("error") or " --> " in l)[:3000]
        log(f"[{pid}] BUILD FAILED (harness out of date with the tree, or the tree does not compile under Kani):\n{errs}")
        write_evidence(pid, tier, seed, meta, plan, {}, t_start, [], note="build failed; nothing was decided", unlisted=unlisted)
        return 2, None

    # ---------------- verdicts
    exit_code = 0
    violations = []
    for n in plan:
        r = results[n]
        ck = f"{r['checks'][1] - r['checks'][0]}/{r['checks'][1]} checks" if r["checks"] else "-"
        cv = f", covers {r['covers'][0]}/{r['covers'][1]}" if r["covers"] else ""
        tm = f", {r['time']:.1f}s" if r["time"] else ""
        log(f"[{pid}] {n}: {r['verdict'].upper()} ({ck}{cv}{tm}) {r['note']}")
        if r["verdict"] in ("inconclusive", "vacuous"):
            exit_code = max(exit_code, 2)
        elif r["verdict"] == "violated":
            for d, loc in r["failed"]:
                log(f"[{pid}]    failed check: {d}  @ {loc}")
    # ---------------- counterexamples: concrete playback + native replay
    for n in plan:
        r = results[n]
        if r["verdict"] != "violated":
            continue
        full = meta[n]["module"] + "::" + n
        cap = p["harnesses"][n].get("cap", 600)
        # trace generation is usually a little slower than the verification run; when it is much slower it
        # is about to exhaust memory, and the native search below takes over
        pb_cap = max(120, min(900, 1.5 * (r["time"] or 60) + 60))
        rdir = os.path.join(VERIF, "replays", pid)
        r["replay"] = []
        confirmed = None
        tests = []
        # harnesses whose verification already took minutes: Kani's trace generation is several times slower
        # (and often exhausts memory); try the directed native search first
        search_first = (r["time"] or 0) > 150
        if search_first:
            confirmed = native_search(pid, incrate, n, r, rdir, seed)
        if confirmed is None:
            extra = list(p["harnesses"][n].get("flags", [])) + ["--harness", full, "--exact", "-Z", "concrete-playback", "--concrete-playback=print",
                     "--harness-timeout", f"{int(pb_cap)}s", "--output-format", "terse"]
            rc, out, dt = sh(kani_cmd(pid, extra), env=env, cwd=REPO, timeout=pb_cap + 600, mem_gb=mem)
            open(os.path.join(BUILD, "logs", f"{pid}_{n}_playback.log"), "w").write(out)
            tests = parse_playback(out)
            wanted = [d for d, _ in r["failed"]]
            tests = [t for t in tests if t["kind"] != "cover"]
            cands = [t for t in tests if t["desc"] in wanted] or tests
            for t in cands[:4]:
                ok, details = native_replay(pid, incrate, n, t["tape"], rdir)
                r["replay"].append(dict(check=t["desc"], values=t["values"], reproduced=ok))
                if ok:
                    confirmed = (t, details)
                    break
                else:
                    log(f"[{pid}]    counterexample for '{t['desc']}' did not reproduce natively ({ok}): {json.dumps(details)[:600]}")
        if confirmed is None and not search_first:
            log(f"[{pid}] {n}: no reproducing values from Kani's playback; searching a witness natively")
            confirmed = native_search(pid, incrate, n, r, rdir, seed)
        if confirmed is None:
            log(f"[{pid}] {n}: counterexample could NOT be reproduced natively -> encoding problem, inconclusive")
            r["verdict"], r["note"] = "inconclusive", "counterexample does not reproduce natively"
            exit_code = max(exit_code, 2)
            continue
        t, details = confirmed
        kf = known_match(pid, n, t["desc"])
        rpath = os.path.join(rdir, n + ".replay.json")
        json.dump(dict(property=pid, harness=n, failed_check=t["desc"], kani_values=t["values"], tape=t["tape"],
                       how_to_replay=f"cd {VERIF} && ./check {pid} --replay {rpath}", native_output=details), open(rpath, "w"), indent=1)
        if kf:
            log(f"KNOWN-FINDING: property={pid} {kf['what']} (harness {n}; values {t['values']})")
            r["verdict"] = "known-finding"
        else:
            log(f"[{pid}] {n}: reproduced natively with values {t['values']}")
            log(f"VIOLATION property={pid} replay={rpath}")
            violations.append(rpath)
            exit_code = 1 if exit_code != 2 else exit_code
    extra_ev = None
    if p.get("e5") and not only:
        ecode, extra_ev, eviol = run_e5(pid)
        if ecode == 1:
            violations.append(eviol)
        elif ecode == 2:
            exit_code = max(exit_code, 2)
    if violations:
        exit_code = 1
    write_evidence(pid, tier, seed, meta, plan, results, t_start, violations, unlisted=unlisted, extra=extra_ev)
    return exit_code, results


def run_e5(pid):
    """E5: release/acquire hand-off litmus in z3 from the MIR of /repo (see smt/e5_handoff.py)."""
    # z3's Python bindings live in the tooling venv (python3-vt)
    env = dict(os.environ)
    env["VERIF_REPO"] = REPO
    rc, txt, _ = sh(["python3-vt", os.path.join(VERIF, "smt", "e5_handoff.py"), "--json-file", os.path.join(BUILD, f"e5_{os.getpid()}.json")], env=env, timeout=1200)
    code, out = (rc if rc in (0, 1, 2) else 2), None
    jf = os.path.join(BUILD, f"e5_{os.getpid()}.json")
    if os.path.exists(jf):
        out = json.load(open(jf))
        os.unlink(jf)
    for line in txt.splitlines():
        if line.startswith("E5 "):
            log(f"[{pid}] {line}")
    viol = None
    if code == 1:
        rdir = os.path.join(VERIF, "replays", pid)
        os.makedirs(rdir, exist_ok=True)
        viol = os.path.join(rdir, "e5_handoff.witness.json")
        json.dump(out, open(viol, "w"), indent=1, default=str)
        log(f"[{pid}] E5: the solver found an execution allowed by the release/acquire axioms in which the collector drains a shard before an observation it counted landed (execution graph in the witness file; weak-memory executions cannot be forced natively)")
        log(f"VIOLATION property={pid} replay={viol}")
    elif code == 2:
        log(f"[{pid}] E5 inconclusive")
    else:
        log(f"[{pid}] E5: hand-off queries unsat (safe), non-vacuity twins sat")
    return code, out, viol


def write_evidence(pid, tier, seed, meta, plan, results, t_start, violations, note="", unlisted=(), extra=None):
    p = PROPS[pid]
    samples = []
    obligations = discharged = 0
    solver_s = 0.0
    stubs = set()
    nontrivial = 0
    for n in plan:
        r = results.get(n)
        m = meta[n]
        s = dict(harness=n, what=m["doc"], unwind=m["unwind"], stubs=m["stubs"])
        stubs.update(m["stubs"])
        if r:
            s["verdict"] = r["verdict"]
            if r.get("note"):
                s["note"] = r["note"]
            if r["checks"]:
                s["checks_total"] = r["checks"][1]
                s["checks_failed_not_ignored"] = len(r["failed"])
                obligations += r["checks"][1]
                discharged += r["checks"][1] - r["checks"][0] + len(r["ignored"]) if r["verdict"] in ("holds", "known-finding", "violated") else 0
            if r["covers"]:
                s["cover_witnesses"] = f"{r['covers'][0]}/{r['covers'][1]}"
            if r["time"]:
                s["cbmc_s"] = r["time"]
                solver_s += r["time"]
            if r.get("replay"):
                s["replay"] = r["replay"]
            if r["verdict"] == "holds":
                nontrivial += 1
        samples.append(s)
    if extra and extra.get("results"):
        for q in extra["results"]:
            obligations += 1
            if q.get("result") in ("unsat", "sat"):
                discharged += 1
            solver_s += q.get("seconds", 0)
            samples.append(dict(smt_query=q.get("query"), result=q.get("result"), seconds=q.get("seconds")))
            if not q.get("query", "").startswith("TWIN") and q.get("result") == "unsat":
                nontrivial += 1
    ev = dict(
        property_id=pid, tier=tier, seed=seed, level="other",
        coverage=dict(
            explanation=("Bounded model checking of the compiled crate: each harness below is compiled by Kani from /repo's working tree "
                         "(rustc MIR -> CBMC goto program), loops unrolled to the stated unwind bound with unwinding assertions ON, and the "
                         "resulting formula decided by CaDiCaL; 'holds' means unsat for ALL values of the symbolic inputs within the bounds, "
                         "not sampling. " + p.get("explanation", "") + (" NOTE: " + note if note else "")),
            obligations=obligations, discharged=discharged,
            evaluations=len(plan) + (len(extra.get("results", [])) if extra else 0), distinct_nontrivial=nontrivial,
            rule="one evaluation = one harness (one SAT query family over all symbolic inputs); non-trivial = decided 'holds' with all cover witnesses satisfied",
            samples=samples,
            checker_cmd="cargo kani -p prometheus -Z stubbing --harness <h> --exact (CBMC 6.11, cadical)",
            trusted_base=sorted(stubs) + p.get("trusted", []),
            functions_encoded=p.get("functions", []),
            bounds=p.get("bounds", ""),
            outside_claim=p.get("outside", ""),
            solver_time_s=round(solver_s, 1),
            harnesses_not_in_plan=sorted(unlisted),
            e5_release_acquire_litmus=(dict(results=extra.get("results"), atomic_events_extracted_from_mir=extra.get("events"), mir_functions_parsed=extra.get("functions")) if extra else None),
            exhaustive=False,
        ),
        assumptions=p.get("assumptions", []),
        wall_s=round(time.time() - t_start, 1),
        violations=len(violations),
    )
    evdir = os.path.join(VERIF, "evidence") if REPO == "/repo" else os.path.join(BUILD, "evidence_other_tree")
    os.makedirs(evdir, exist_ok=True)
    tmp = os.path.join(evdir, pid + ".json.tmp")
    json.dump(ev, open(tmp, "w"), indent=1)
    os.replace(tmp, os.path.join(evdir, pid + ".json"))


def do_replay(pid, path):
    d = json.load(open(path))
    incrate = gen_incrate(pid)
    ok, details = native_replay(pid, incrate, d["harness"], d["tape"], os.path.dirname(path))
    log(json.dumps(details, indent=1))
    if ok:
        log(f"VIOLATION property={pid} replay={path}")
        return 1
    return 0 if ok is False else 2


def main(argv):
    if len(argv) < 2:
        print(__doc__ or "usage: check <id> quick|thorough")
        return 2
    pid = argv[0]
    if pid not in PROPS:
        log(f"unknown property {pid}")
        return 2
    if argv[1] == "--replay":
        return do_replay(pid, argv[2])
    tier = os.environ.get("VERIF_TIER") or argv[1]
    if argv[1] in ("quick", "thorough"):
        tier = argv[1]
    only = []
    jobs = None
    i = 2
    while i < len(argv):
        if argv[i] == "--only":
            only.append(argv[i + 1]); i += 2
        elif argv[i] == "--jobs":
            jobs = int(argv[i + 1]); i += 2
        else:
            i += 1
    seed = int(os.environ.get("VERIF_SEED", "0") or 0)
    runner = PROPS[pid].get("runner")
    if runner:
        return runner(pid, tier, seed)
    code, _ = run_property(pid, tier, only or None, seed, jobs)
    log(f"[{pid}] exit {code}")
    return code
